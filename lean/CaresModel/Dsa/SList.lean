import CaresModel.Generated.DsaConsts
import CaresModel.Dsa.Alloc
import CaresModel.Dsa.Arr
/-
Model of src/lib/dsa/ares_slist.c (ares_slist_t): a skip list = one ordered linked list per level.

  C field / notion             model
  list->head[i] … chain        lv : List (List Nat)   the level lists, TOP LEVEL FIRST:
                                                       lv = [level (levels-1), …, level 1, level 0];
                                                       a level list holds node ids in next[i]-order
  list->levels                 lv.length
  node->next[i] / prev[i]      successor / predecessor of the id in level list i
  node->levels                 nlv id
  node->data (the sort key)    key id                 (the user may change it, then call reinsert)
  list->tail                   tail
  list->cnt                    cnt
  coin flips                   an input (`coins`) — theorems quantify over all of them

The algorithms are the C algorithms on this representation: ares_slist_node_push() walks the levels from the
top carrying `left` (the rightmost node seen whose key is smaller) and links the node into the levels below
its own level count, *before* the first node that is not smaller (equal keys: the new node goes first);
ares_slist_node_pop() unlinks the node from its levels and fixes the tail; ares_slist_node_find() walks
forward / backs off one node per level and finally walks back along level 0 to the first equal node.
-/
namespace Cares.Dsa
open Cares.Generated

structure SList where
  lv : List (List Nat)
  key : Nat → Nat
  nlv : Nat → Nat
  tail : Option Nat
  cnt : Nat

namespace SList

/-- ares_slist_create (two allocations, consulted by the caller): START_LEVELS empty levels -/
def empty : SList :=
  { lv := List.replicate SLIST_START_LEVELS [], key := fun _ => 0, nlv := fun _ => 0, tail := none, cnt := 0 }

/-- level 0: all nodes in order (what ares_slist_node_first / _next iterate over) -/
def level0 (s : SList) : List Nat := s.lv.getLast?.getD []

/-- ares_slist_max_level -/
def maxLevel (s : SList) : Nat :=
  let m := if s.cnt + 1 ≤ 2 ^ SLIST_START_LEVELS then SLIST_START_LEVELS else Nat.log2 (Arr.pow2ceil (s.cnt + 1))
  if s.lv.length > m then s.lv.length else m

/-- ares_slist_calc_level: `for (level = 1; coin_flip() && level < max_level; level++);` -/
def calcLevel : List Bool → Nat → Nat → Nat
  | true :: rest, level, maxLevel => if level < maxLevel then calcLevel rest (level + 1) maxLevel else level
  | _, level, _ => level

/-- the nodes after `x` in a level list -/
def after (x : Nat) (l : List Nat) : List Nat := (l.dropWhile (· != x)).drop 1

/-- `while (left->next[i] != NULL && cmp(node, left->next[i]) > 0) left = left->next[i];`
    walking over `rest`, the nodes after `left` -/
def advanceGo (key : Nat → Nat) (k : Nat) : Nat → List Nat → Nat
  | cur, [] => cur
  | cur, x :: r => if k > key x then advanceGo key k x r else cur

def advance (key : Nat → Nat) (k : Nat) (l : List Nat) (left : Nat) : Nat := advanceGo key k left (after left l)

/-- link `n` behind `x` -/
def insertAfter (x n : Nat) : List Nat → List Nat
  | [] => [n]                                   -- not reached: `x` is always in the list
  | y :: r => if y = x then y :: n :: r else y :: insertAfter x n r

/-- link the node at one level: "head insertion" when `left` is NULL, "chain" behind `left` otherwise -/
def linkLevel (left : Option Nat) (n : Nat) (l : List Nat) : List Nat :=
  match left with
  | none => n :: l
  | some x => insertAfter x n l

/-- "set left if left is NULL and the current node value is greater than the head at this level" -/
def setLeft (key : Nat → Nat) (k : Nat) (l : List Nat) : Option Nat → Option Nat
  | some x => some x
  | none =>
    match l.head? with
    | some h => if k > key h then some h else none
    | none => none

/-- ares_slist_node_push over the level lists (top first); `left` is carried from level to level -/
def pushLevels (key : Nat → Nat) (k n nl : Nat) : List (List Nat) → Option Nat → List (List Nat)
  | [], _ => []
  | l :: below, left =>
    -- "scan forward to find our insertion point"
    let left2 := (setLeft key k l left).map (advance key k l)
    -- "search only as we didn't randomly select this number of levels"
    let l' := if below.length ≥ nl then l else linkLevel left2 n l
    l' :: pushLevels key k n nl below left2

/-- ares_slist_node_push, tail update included ("if node->next[0] == NULL: list->tail = node") -/
def push (s : SList) (n : Nat) : SList :=
  let lv' := pushLevels s.key (s.key n) n (s.nlv n) s.lv none
  let l0 := lv'.getLast?.getD []
  { s with lv := lv', tail := if l0.getLast? = some n then some n else s.tail }

/-- the node in front of `x` in a level list (`prev[i]`) -/
def prevOf (x : Nat) (l : List Nat) : Option Nat := (l.takeWhile (· != x)).getLast?

/-- unlink from the levels below the node's level count -/
def popLevels (n nl : Nat) : List (List Nat) → List (List Nat)
  | [] => []
  | l :: below => (if below.length < nl then l.erase n else l) :: popLevels n nl below

/-- ares_slist_node_pop: "if node->next[0] == NULL: list->tail = node->prev[0]" -/
def pop (s : SList) (n : Nat) : SList :=
  let l0 := s.level0
  { s with lv := popLevels n (s.nlv n) s.lv,
           tail := if (after n l0).isEmpty then prevOf n l0 else s.tail }

/-- ares_slist_insert of a fresh node id `n` with sort key `k`; `coins` are the coin flips.  Allocations:
    node, next[], prev[], and the head array when the list gains levels (consulted by the caller). -/
def insert (s : SList) (n k : Nat) (coins : List Bool) : SList :=
  let nl := calcLevel coins 1 s.maxLevel
  let s1 : SList := { s with key := fun i => if i = n then k else s.key i,
                             nlv := fun i => if i = n then nl else s.nlv i,
                             -- "If the number of levels is greater than we currently support ... increase"
                             lv := List.replicate (nl - s.lv.length) [] ++ s.lv }
  let s2 := s1.push n
  { s2 with cnt := s2.cnt + 1 }

/-- ares_slist_node_claim / ares_slist_node_destroy -/
def remove (s : SList) (n : Nat) : SList :=
  let s1 := s.pop n
  { s1 with cnt := s1.cnt - 1 }

/-- the user changes the node's data (its sort key); the list is out of order until ares_slist_node_reinsert -/
def setKey (s : SList) (n k : Nat) : SList := { s with key := fun i => if i = n then k else s.key i }

/-- ares_slist_node_reinsert -/
def reinsert (s : SList) (n : Nat) : SList := (s.pop n).push n

/-- result of the walk along one level in ares_slist_node_find -/
inductive Walk where
  | found (x : Nat)             -- rv == 0
  | cont (node : Option Nat)    -- rv < 0: backed off to prev[i] (maybe NULL); rv > 0: ran off the end (NULL)

/-- `do { rv = cmp(val, node); if (rv < 0) node = node->prev[i]; else if (rv > 0) node = node->next[i]; }
    while (node != NULL && rv > 0);` — `prev` is the node in front of the current one -/
def walk (key : Nat → Nat) (k : Nat) : Option Nat → List Nat → Walk
  | _, [] => .cont none
  | prev, x :: r => if k < key x then .cont prev else if k = key x then .found x else walk key k (some x) r

/-- one level: start at the node carried from above (or the level's head), walk -/
def findLevel (key : Nat → Nat) (k : Nat) (l : List Nat) (node : Option Nat) : Walk :=
  match node with
  | some c => walk key k (prevOf c l) (c :: after c l)
  | none => walk key k none l

/-- the level loop of ares_slist_node_find (top first) -/
def findLevels (key : Nat → Nat) (k : Nat) : List (List Nat) → Option Nat → Option Nat
  | [], _ => none
  | l :: below, node =>
    match findLevel key k l node with
    | .found x => some x
    | .cont node' => findLevels key k below node'

/-- "Lets scan backwards to find the first match": over the reversed prefix in front of the match -/
def backToFirst (key : Nat → Nat) (k : Nat) : Nat → List Nat → Nat
  | cur, [] => cur
  | cur, p :: r => if key p = k then backToFirst key k p r else cur

/-- ares_slist_node_find -/
def find (s : SList) (k : Nat) : Option Nat :=
  match findLevels s.key k s.lv none with
  | none => none
  | some x => some (backToFirst s.key k x (s.level0.takeWhile (· != x)).reverse)

/-- ares_slist_node_first / ares_slist_node_last -/
def first (s : SList) : Option Nat := s.level0.head?
def last (s : SList) : Option Nat := s.tail

/-! ### specification side -/

/-- where a node with key `k` goes: before the first node whose key is not smaller -/
def specInsert (key : Nat → Nat) (k n : Nat) (l : List Nat) : List Nat :=
  l.takeWhile (fun x => key x < k) ++ n :: l.dropWhile (fun x => key x < k)

def Sorted (key : Nat → Nat) (l : List Nat) : Prop := l.Pairwise (fun a b => key a ≤ key b)

/-- adjacent levels: the upper one is a sub-list of the lower one -/
def SubChain : List (List Nat) → Prop
  | [] => True
  | [_] => True
  | hi :: lo :: rest => hi.Sublist lo ∧ SubChain (lo :: rest)

/-- every node of the bottom list appears exactly in the lowest `nlv` levels -/
def LevelsOk (nlv : Nat → Nat) : List (List Nat) → Prop
  | [] => True
  | l :: below => (∀ x, x ∈ l → below.length < nlv x) ∧ LevelsOk nlv below

structure Inv (s : SList) : Prop where
  nonempty : s.lv ≠ []
  sorted : Sorted s.key s.level0
  nodup : s.level0.Nodup
  /-- level i+1 is a sub-list of level i -/
  sub : SubChain s.lv
  /-- a node is linked only into levels below its own level count -/
  lvOk : LevelsOk s.nlv s.lv
  tailOk : s.tail = s.level0.getLast?
  cntOk : s.cnt = s.level0.length

/-- the invariant while node `n` may be out of place (its key was changed): everything but `n` is in order -/
structure InvExcept (s : SList) (n : Nat) : Prop where
  nonempty : s.lv ≠ []
  sorted : Sorted s.key (s.level0.erase n)
  nodup : s.level0.Nodup
  sub : SubChain s.lv
  lvOk : LevelsOk s.nlv s.lv
  tailOk : s.tail = s.level0.getLast?
  cntOk : s.cnt = s.level0.length

end SList
end Cares.Dsa
