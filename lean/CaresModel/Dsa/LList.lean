import CaresModel.Dsa.Alloc
/-
Model of src/lib/dsa/ares_llist.c (ares_llist_t / ares_llist_node_t) at pointer level: a heap of nodes with
`prev`, `next` and `parent` pointers and of list headers with `head`, `tail` and `cnt`.  Pointers are ids
(`Nat`), NULL is `none`.  A node's `data` is not modelled: the node id stands for it.

Every function performs the pointer updates of the C function in the same order.  `linkPrev` selects what
ARES__LLIST_INSERT_BEFORE does:

  false  the pinned code:   node->next = at; node->prev = at->prev; at->prev = node;
                            (the old predecessor's `next` is NOT redirected — finding F32-C19)
  true   the repaired code: … plus  node->prev->next = node;

`pinnedLinkPrev` is what the tree under check does; the theorems are stated for both values.
-/
namespace Cares.Dsa

structure LNode where
  prev : Option Nat
  next : Option Nat
  parent : Option Nat
  deriving Repr, DecidableEq

structure LHdr where
  head : Option Nat
  tail : Option Nat
  cnt : Nat
  deriving Repr, DecidableEq

structure LHeap where
  nodes : Nat → Option LNode
  lists : Nat → Option LHdr

/-- what ARES__LLIST_INSERT_BEFORE does on the tree under check (see the header comment) -/
def pinnedLinkPrev : Bool := true

namespace LHeap

def empty : LHeap := { nodes := fun _ => none, lists := fun _ => none }

def setNode (h : LHeap) (x : Nat) (nd : Option LNode) : LHeap :=
  { h with nodes := fun y => if y = x then nd else h.nodes y }

def setList (h : LHeap) (L : Nat) (hd : Option LHdr) : LHeap :=
  { h with lists := fun y => if y = L then hd else h.lists y }

/-- `p->next = v` for a possibly NULL `p` that is a live node -/
def setNext (h : LHeap) (p : Option Nat) (v : Option Nat) : LHeap :=
  match p with
  | none => h
  | some x =>
    match h.nodes x with
    | none => h
    | some nd => h.setNode x (some { nd with next := v })

def setPrev (h : LHeap) (p : Option Nat) (v : Option Nat) : LHeap :=
  match p with
  | none => h
  | some x =>
    match h.nodes x with
    | none => h
    | some nd => h.setNode x (some { nd with prev := v })

/-- ares_llist_create (one allocation, consulted by the caller) -/
def create (h : LHeap) (L : Nat) : LHeap := h.setList L (some { head := none, tail := none, cnt := 0 })

inductive AttachTy where
  | head | tail | before
  deriving DecidableEq

/-- ares_llist_attach_at: link the (allocated, unlinked) node `n` into list `L` -/
def attachAt (linkPrev : Bool) (h : LHeap) (L : Nat) (ty : AttachTy) (at_ : Option Nat) (n : Nat) : LHeap :=
  match h.lists L, h.nodes n with
  | some hd, some _ =>
    -- "if (type == BEFORE && (at == list->head || at == NULL)) type = HEAD"
    let ty := if ty = .before ∧ (at_ = hd.head ∨ at_ = none) then AttachTy.head else ty
    let h1 : LHeap × LHdr :=
      match ty with
      | .head =>
        -- node->next = head; node->prev = NULL; if (head) head->prev = node; head = node
        let h' := (h.setNode n (some { prev := none, next := hd.head, parent := some L })).setPrev hd.head (some n)
        (h', { hd with head := some n })
      | .tail =>
        let h' := (h.setNode n (some { prev := hd.tail, next := none, parent := some L })).setNext hd.tail (some n)
        (h', { hd with tail := some n })
      | .before =>
        -- node->next = at; node->prev = at->prev; at->prev = node
        let atPrev := match at_.bind h.nodes with
          | some a => a.prev
          | none => none
        let h' := (h.setNode n (some { prev := atPrev, next := at_, parent := some L })).setPrev at_ (some n)
        ((if linkPrev then h'.setNext atPrev (some n) else h'), hd)
    -- "if (tail == NULL) tail = node; if (head == NULL) head = node; cnt++"
    let hd1 := h1.2
    let hd2 : LHdr := { head := if hd1.head = none then some n else hd1.head,
                        tail := if hd1.tail = none then some n else hd1.tail, cnt := hd1.cnt + 1 }
    h1.1.setList L (some hd2)
  | _, _ => h

/-- ares_llist_insert_at: allocate node `n` (fresh id), attach it -/
def insertAt (linkPrev : Bool) (h : LHeap) (L : Nat) (ty : AttachTy) (at_ : Option Nat) (n : Nat) : LHeap :=
  attachAt linkPrev (h.setNode n (some { prev := none, next := none, parent := none })) L ty at_ n

def insertFirst (h : LHeap) (L n : Nat) : LHeap := insertAt false h L .head none n
def insertLast (h : LHeap) (L n : Nat) : LHeap := insertAt false h L .tail none n

/-- ares_llist_insert_before(node `at_`, …) -/
def insertBefore (linkPrev : Bool) (h : LHeap) (at_ n : Nat) : LHeap :=
  match h.nodes at_ with
  | some a =>
    match a.parent with
    | some L => insertAt linkPrev h L .before (some at_) n
    | none => h
  | none => h

/-- ares_llist_insert_after: "if (node->next == NULL) insert_last(parent) else insert BEFORE node->next" -/
def insertAfter (linkPrev : Bool) (h : LHeap) (at_ n : Nat) : LHeap :=
  match h.nodes at_ with
  | some a =>
    match a.parent with
    | some L =>
      match a.next with
      | none => insertLast h L n
      | some nx => insertAt linkPrev h L .before (some nx) n
    | none => h
  | none => h

/-- ares_llist_node_detach -/
def detach (h : LHeap) (n : Nat) : LHeap :=
  match h.nodes n with
  | some nd =>
    match nd.parent.bind h.lists with
    | some hd =>
      -- if (prev) prev->next = next; if (next) next->prev = prev
      let h1 := (h.setNext nd.prev nd.next).setPrev nd.next nd.prev
      let hd1 : LHdr := { head := if hd.head = some n then nd.next else hd.head,
                          tail := if hd.tail = some n then nd.prev else hd.tail, cnt := hd.cnt - 1 }
      -- node->parent = NULL (prev / next keep their stale values)
      let h2 := match h1.nodes n with
        | some nd1 => h1.setNode n (some { nd1 with parent := none })
        | none => h1
      match nd.parent with
      | some L => h2.setList L (some hd1)
      | none => h2
    | none => h
  | none => h

/-- ares_llist_node_claim / ares_llist_node_destroy: detach and free the node -/
def claim (h : LHeap) (n : Nat) : LHeap := (h.detach n).setNode n none

/-- ares_llist_node_mvparent_first / _last -/
def mvParentFirst (h : LHeap) (n L2 : Nat) : LHeap := attachAt false (h.detach n) L2 .head none n
def mvParentLast (h : LHeap) (n L2 : Nat) : LHeap := attachAt false (h.detach n) L2 .tail none n

/-- forward iteration: ares_llist_node_first, then ares_llist_node_next until NULL (bounded by `fuel`) -/
def walkNext (h : LHeap) : Nat → Option Nat → List Nat
  | 0, _ => []
  | _, none => []
  | fuel + 1, some x => x :: walkNext h fuel ((h.nodes x).bind (·.next))

/-- backward iteration: ares_llist_node_last, then ares_llist_node_prev until NULL -/
def walkPrev (h : LHeap) : Nat → Option Nat → List Nat
  | 0, _ => []
  | _, none => []
  | fuel + 1, some x => x :: walkPrev h fuel ((h.nodes x).bind (·.prev))

def forward (h : LHeap) (L fuel : Nat) : List Nat := walkNext h fuel ((h.lists L).bind (·.head))
def backward (h : LHeap) (L fuel : Nat) : List Nat := walkPrev h fuel ((h.lists L).bind (·.tail))

def len (h : LHeap) (L : Nat) : Nat := ((h.lists L).map (·.cnt)).getD 0

/-- ares_llist_node_idx -/
def nodeIdx (h : LHeap) (L idx : Nat) : Option Nat :=
  match h.lists L with
  | some hd => if idx ≥ hd.cnt then none else (walkNext h (idx + 1) hd.head)[idx]?
  | none => none

/-! ### specification side -/

/-- list `L` of the heap is the sequence `l`: header and every node's three pointers are what a doubly linked
    list of `l` has -/
structure Repr (h : LHeap) (L : Nat) (l : List Nat) : Prop where
  hdr : h.lists L = some { head := l.head?, tail := l.getLast?, cnt := l.length }
  nodup : l.Nodup
  link : ∀ i x, l[i]? = some x →
    h.nodes x = some { prev := if i = 0 then none else l[i - 1]?, next := l[i + 1]?, parent := some L }

/-- the whole heap stands for the family of sequences `abs` -/
structure GInv (h : LHeap) (abs : Nat → Option (List Nat)) : Prop where
  lists : ∀ L, h.lists L = none ↔ abs L = none
  repr : ∀ L l, abs L = some l → Repr h L l
  /-- a node that claims a parent is a member of that list -/
  owner : ∀ x nd L, h.nodes x = some nd → nd.parent = some L → ∃ l, abs L = some l ∧ x ∈ l

end LHeap
end Cares.Dsa
