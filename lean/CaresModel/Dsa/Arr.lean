import CaresModel.Generated.DsaConsts
/-
Model of src/lib/dsa/ares_array.c (ares_array_t): a dynamic array with a moving start offset.

  C field        model
  arr->arr       mem   : List Nat   (one Nat per member; length = alloc_cnt; zero-filled on growth)
  arr->cnt       cnt
  arr->offset    off
  arr->alloc_cnt mem.length

Every function follows the C control flow, including the explicit range checks of
ares_array_move().  Allocation is an oracle argument (`allocOk`).
-/
namespace Cares.Dsa

inductive St where
  | ok | formerr | nomem
  deriving Repr, DecidableEq, Inhabited

structure Arr where
  mem : List Nat
  cnt : Nat
  off : Nat
  deriving Repr, DecidableEq

namespace Arr

def empty : Arr := { mem := [], cnt := 0, off := 0 }

@[reducible] def alloc (a : Arr) : Nat := a.mem.length

/-- what the API user can observe: the members in order -/
def abs (a : Arr) : List Nat := (a.mem.drop a.off).take a.cnt

/-- representation invariant -/
def Inv (a : Arr) : Prop := a.off + a.cnt ≤ a.mem.length ∧ (a.cnt = 0 → a.off = 0)

/-- memmove(dest, src, n members) inside one allocation -/
def memmove (m : List Nat) (dest src n : Nat) : List Nat :=
  m.take dest ++ (m.drop src).take n ++ m.drop (dest + n)

/-- ares_array_move -/
def move (a : Arr) (dest src : Nat) : Option Arr :=
  if dest ≥ a.alloc ∨ src ≥ a.alloc then none
  else if dest = src then some a
  else if dest > src ∧ a.cnt + (dest - src) > a.alloc then none
  else some { a with mem := memmove a.mem dest src (a.cnt - (src - a.off)) }

/-- smallest power of two ≥ n (ares_round_up_pow2), n ≥ 1 -/
def pow2ceilAux : Nat → Nat → Nat → Nat
  | 0, p, _ => p
  | fuel + 1, p, n => if n ≤ p then p else pow2ceilAux fuel (2 * p) n

def pow2ceil (n : Nat) : Nat := pow2ceilAux n 1 n

/-- ARES__ARRAY_MIN, regenerated from ares_array.c on every run -/
def arrayMin : Nat := Cares.Generated.ARRAY_MIN

/-- allocation size policy: power of two, at least ARES__ARRAY_MIN -/
def roundSize (size : Nat) : Nat :=
  let s := pow2ceil size
  if s < arrayMin then arrayMin else s

/-- ares_array_set_size -/
def setSize (a : Arr) (size : Nat) (allocOk : Bool) : St × Arr :=
  if size = 0 ∨ size < a.cnt then (.formerr, a)
  else
    let size := roundSize size
    if size ≤ a.alloc then (.ok, a)
    else if !allocOk then (.nomem, a)
    else (.ok, { a with mem := a.mem ++ List.replicate (size - a.alloc) 0 })

/-- ares_array_insert_at followed by storing `v` in the returned slot
    (ares_array_insertdata_at) -/
def insertAt (a : Arr) (idx v : Nat) (allocOk : Bool) : St × Arr :=
  if idx > a.cnt then (.formerr, a)
  else
    match a.setSize (a.cnt + 1) allocOk with
    | (.ok, a1) =>
      -- shift to the front when there is memory but no room at the end
      let r2 : Option Arr :=
        if a1.cnt + 1 + a1.off > a1.alloc then
          (a1.move 0 a1.off).map (fun b => { b with off := 0 })
        else some a1
      match r2 with
      | none => (.formerr, a1)
      | some a2 =>
        let r3 : Option Arr :=
          if idx ≠ a2.cnt then a2.move (idx + a2.off + 1) (idx + a2.off) else some a2
        match r3 with
        | none => (.formerr, a2)
        | some a3 => (.ok, { a3 with mem := a3.mem.set (idx + a3.off) v, cnt := a3.cnt + 1 })
    | (st, a1) => (st, a1)

def insertLast (a : Arr) (v : Nat) (allocOk : Bool) := a.insertAt a.cnt v allocOk
def insertFirst (a : Arr) (v : Nat) (allocOk : Bool) := a.insertAt 0 v allocOk

/-- ares_array_at -/
def at? (a : Arr) (idx : Nat) : Option Nat :=
  if idx ≥ a.cnt then none else a.mem[idx + a.off]?

def first? (a : Arr) : Option Nat := a.at? 0
def last? (a : Arr) : Option Nat := if a.cnt = 0 then none else a.at? (a.cnt - 1)

/-- ares_array_claim_at (also ares_array_remove_at: the destructor is not modelled) -/
def claimAt (a : Arr) (idx : Nat) : St × Arr :=
  if idx ≥ a.cnt then (.formerr, a)
  else
    let r : Option Arr :=
      if idx = 0 then some { a with off := a.off + 1 }
      else if idx ≠ a.cnt - 1 then a.move (idx + a.off) (idx + a.off + 1)
      else some a
    match r with
    | none => (.formerr, a)
    | some b =>
      let b := { b with cnt := b.cnt - 1 }
      -- an emptied array restarts at the beginning of its allocation
      (.ok, if b.cnt = 0 then { b with off := 0 } else b)

def removeFirst (a : Arr) := a.claimAt 0
def removeLast (a : Arr) : St × Arr := if a.cnt = 0 then (.formerr, a) else a.claimAt (a.cnt - 1)

/-- ares_array_finish: move the data to the start of the allocation and hand it out -/
def finish (a : Arr) : Option (List Nat) :=
  if a.off ≠ 0 then
    (a.move 0 a.off).map (fun b => b.mem.take b.cnt)
  else some (a.mem.take a.cnt)

end Arr
end Cares.Dsa
