import CaresModel.Generated.DsaConsts
import CaresModel.Dsa.Alloc
/-
Model of src/lib/dsa/ares_htable.c (ares_htable_t) and of what the typed wrappers
(ares_htable_szvp/strvp/asvp/vpvp/vpstr/dict.c) add to it.

  C field                    model
  htable->buckets            buckets : List (Option (List (K × V)))   none = NULL, some l = an ares_llist_t
                                                                        (front of l = head of the llist)
  htable->size               size      (unsigned int; never wraps, see `Inv.szmax` and the side conditions)
  htable->num_keys           numKeys
  htable->num_collisions     numCollisions
  hash / key_eq / seed       HOps.hash (seed folded in), HOps.eq      (per-type callbacks)
  a bucket object            a pair (key, value); the key spelling of the latest insert is kept

Every function follows the C control flow: lazy creation of the per-bucket llist, replace-in-place on an
existing key, the growth test `num_keys + 1 > size * EXPAND_PERCENT / 100`, the pre-allocation in
ares_htable_expand() (bucket array, llist pointer array, num_collisions llists) *before* any entry is
moved, the fast path / slow path of the move loop, and the "impossible" `goto done` when the
pre-allocated llists run out (proved unreachable in CaresProps/C19).  Allocation is the oracle of
CaresModel/Dsa/Alloc.lean.
-/
namespace Cares.Dsa
open Cares.Generated

/-- the callbacks given to ares_htable_create() -/
structure HOps (K : Type) where
  hash : K → Nat
  eq : K → K → Bool
  /-- the key is the NULL pointer (only the pointer-keyed tables vpvp / vpstr can be handed one):
      ares_htable_get() and ares_htable_remove() refuse it, ares_htable_insert() does not look -/
  isNull : K → Bool := fun _ => false

structure HTable (K V : Type) where
  buckets : List (Option (List (K × V)))
  size : Nat
  numKeys : Nat
  numCollisions : Nat

namespace HTable
variable {K V : Type}

/-- `HASH_IDX(h, key)`: `h->hash(key, h->seed) & (h->size - 1)` -/
def hidx (ops : HOps K) (size : Nat) (k : K) : Nat := ops.hash k &&& (size - 1)

/-- the llist in slot `idx` as a list (NULL and out of range read as empty; `hidx` is always in range) -/
def bucketAt (bs : List (Option (List (K × V)))) (idx : Nat) : List (K × V) :=
  match bs[idx]? with
  | some (some l) => l
  | _ => []

/-- is slot `idx` NULL? -/
def slotNull (bs : List (Option (List (K × V)))) (idx : Nat) : Bool :=
  match bs[idx]? with
  | some (some _) => false
  | _ => true

/-- ares_htable_find: first node of the bucket whose key equals `k` (`key_eq(key, bucket_key(node))`) -/
def findIn (ops : HOps K) (k : K) (l : List (K × V)) : Option (K × V) := l.find? (fun e => ops.eq k e.1)

/-- ares_llist_node_replace on the node ares_htable_find returned -/
def replaceFirst (ops : HOps K) (k : K) (new : K × V) : List (K × V) → List (K × V)
  | [] => []
  | e :: r => if ops.eq k e.1 then new :: r else e :: replaceFirst ops k new r

/-- ares_llist_node_destroy on the node ares_htable_find returned -/
def removeFirst (ops : HOps K) (k : K) : List (K × V) → List (K × V)
  | [] => []
  | e :: r => if ops.eq k e.1 then r else e :: removeFirst ops k r

/-- a freshly created table -/
def empty : HTable K V :=
  { buckets := List.replicate HTABLE_MIN_BUCKETS none, size := HTABLE_MIN_BUCKETS, numKeys := 0, numCollisions := 0 }

/-- ares_htable_create: the table object and the bucket array (two allocations) -/
def create (o : Oracle) : Option (HTable K V) × Oracle :=
  match o.next with
  | (false, o1) => (none, o1)
  | (true, o1) =>
    match o1.next with
    | (false, o2) => (none, o2)
    | (true, o2) =>
      (some empty, o2)

/-- working state of the move loop in ares_htable_expand -/
structure XS (K V : Type) where
  nb : List (Option (List (K × V)))   -- `buckets` (the new array)
  pre : Nat                            -- prealloc_llist_len
  coll : Nat                           -- htable->num_collisions (reset to 0 before the loop)

/-- slow path: `while ((node = ares_llist_node_first(htable->buckets[i])) != NULL)`.
    Second component: `some rest` = the `goto done` was taken with `rest` still in the old bucket. -/
def drain (ops : HOps K) (size : Nat) : List (K × V) → XS K V → XS K V × Option (List (K × V))
  | [], x => (x, none)
  | e :: rest, x =>
    let idx := hidx ops size e.1
    if slotNull x.nb idx then
      if rest.isEmpty then
        -- "Swap!": the old llist object (one node left) becomes the new bucket
        ({ x with nb := x.nb.set idx (some [e]) }, none)
      else if x.pre = 0 then
        (x, some (e :: rest))
      else
        -- take a pre-allocated llist, move the node to its front
        drain ops size rest { x with nb := x.nb.set idx (some [e]), pre := x.pre - 1 }
    else
      -- collision in the new array
      drain ops size rest { x with nb := x.nb.set idx (some (e :: bucketAt x.nb idx)), coll := x.coll + 1 }

/-- one iteration of `for (i = 0; i < old_size; i++)` -/
def moveBucket (ops : HOps K) (size : Nat) (b : Option (List (K × V))) (x : XS K V) :
    XS K V × Option (List (K × V)) :=
  match b with
  | none => (x, none)
  | some [e] =>
    -- fast path: single entry and the destination is still NULL
    if slotNull x.nb (hidx ops size e.1) then
      ({ x with nb := x.nb.set (hidx ops size e.1) (some [e]) }, none)
    else drain ops size [e] x
  | some l => drain ops size l x

/-- the whole loop; second component = what is left of the old array when `goto done` was taken -/
def moveAll (ops : HOps K) (size : Nat) :
    List (Option (List (K × V))) → XS K V → XS K V × Option (List (Option (List (K × V))))
  | [], x => (x, none)
  | b :: bs, x =>
    match moveBucket ops size b x with
    | (x1, none) => moveAll ops size bs x1
    | (x1, some rest) => (x1, some (some rest :: bs))

/-- ares_htable_expand -/
def expand (ops : HOps K) (t : HTable K V) (o : Oracle) : Bool × HTable K V × Oracle :=
  if t.size = HTABLE_MAX_BUCKETS then (true, t, o)
  else
    let newSize := t.size * 2
    match o.next with                                  -- the new bucket array
    | (false, o1) => (false, t, o1)
    | (true, o1) =>
      match (if t.numCollisions ≠ 0 then o1.next else (true, o1)) with   -- the array of pre-allocated llists
      | (false, o2) => (false, t, o2)
      | (true, o2) =>
        match o2.nextN t.numCollisions with            -- the pre-allocated llists themselves
        | (false, o3) => (false, t, o3)
        | (true, o3) =>
          match moveAll ops newSize t.buckets
                  { nb := List.replicate newSize none, pre := t.numCollisions, coll := 0 } with
          | (x, none) =>
            (true, { buckets := x.nb, size := newSize, numKeys := t.numKeys, numCollisions := x.coll }, o3)
          | (x, some left) =>
            -- unreachable (C19.ht_expand_prealloc_suffices); the C code would leave the table like this
            (false, { t with buckets := List.replicate (t.buckets.length - left.length) none ++ left,
                             numCollisions := x.coll }, o3)

/-- ares_htable_insert (the bucket object `(k, v)` has already been allocated by the typed wrapper) -/
def insert (ops : HOps K) (t : HTable K V) (k : K) (v : V) (o : Oracle) : Bool × HTable K V × Oracle :=
  let idx := hidx ops t.size k
  match findIn ops k (bucketAt t.buckets idx) with
  | some _ =>
    (true, { t with buckets := t.buckets.set idx (some (replaceFirst ops k (k, v) (bucketAt t.buckets idx))) }, o)
  | none =>
    match (if t.numKeys + 1 > (t.size * HTABLE_EXPAND_PERCENT) / 100 then expand ops t o else (true, t, o)) with
    | (false, t1, o1) => (false, t1, o1)
    | (true, t1, o1) =>
      let idx := hidx ops t1.size k
      -- "We lazily allocate the linked list"
      match (if slotNull t1.buckets idx then o1.next else (true, o1)) with
      | (false, o2) => (false, t1, o2)
      | (true, o2) =>
        let t2 : HTable K V :=
          if slotNull t1.buckets idx then { t1 with buckets := t1.buckets.set idx (some []) } else t1
        -- ares_llist_insert_first allocates the node
        match o2.next with
        | (false, o3) => (false, t2, o3)
        | (true, o3) =>
          let l := (k, v) :: bucketAt t2.buckets idx
          (true, { buckets := t2.buckets.set idx (some l), size := t2.size, numKeys := t2.numKeys + 1,
                   numCollisions := if l.length > 1 then t2.numCollisions + 1 else t2.numCollisions }, o3)

/-- ares_htable_get -/
def get (ops : HOps K) (t : HTable K V) (k : K) : Option (K × V) :=
  if ops.isNull k then none
  else findIn ops k (bucketAt t.buckets (hidx ops t.size k))

/-- ares_htable_remove -/
def remove (ops : HOps K) (t : HTable K V) (k : K) : Bool × HTable K V :=
  if ops.isNull k then (false, t) else
  let idx := hidx ops t.size k
  let l := bucketAt t.buckets idx
  match findIn ops k l with
  | none => (false, t)
  | some _ =>
    (true, { buckets := t.buckets.set idx (some (removeFirst ops k l)), size := t.size,
             numKeys := t.numKeys - 1,
             numCollisions := if l.length > 1 then t.numCollisions - 1 else t.numCollisions })

/-- all bucket objects of a bucket array, in ares_htable_all_buckets order -/
def ents (bs : List (Option (List (K × V)))) : List (K × V) := bs.flatMap (fun b => b.getD [])

def entries (t : HTable K V) : List (K × V) := ents t.buckets

/-- typed wrapper insert: `pre` allocations (bucket object, key copy, value copy) happen first; if one of
    them or ares_htable_insert fails the wrapper frees what it allocated and reports failure -/
def wrapInsert (ops : HOps K) (pre : Nat) (t : HTable K V) (k : K) (v : V) (o : Oracle) :
    Bool × HTable K V × Oracle :=
  match o.nextN pre with
  | (false, o1) => (false, t, o1)
  | (true, o1) => insert ops t k v o1

/-! ### specification side: laws of the callbacks, representation invariant, abstraction -/

/-- what ares_htable_create() expects of its callbacks: `key_eq` is an equivalence and equal keys hash equally -/
structure Lawful (ops : HOps K) : Prop where
  refl : ∀ a, ops.eq a a = true
  symm : ∀ a b, ops.eq a b = true → ops.eq b a = true
  trans : ∀ a b c, ops.eq a b = true → ops.eq b c = true → ops.eq a c = true
  hash_eq : ∀ a b, ops.eq a b = true → ops.hash a = ops.hash b

def blen : Option (List (K × V)) → Nat
  | none => 0
  | some l => l.length

/-- collisions recorded for one bucket: every node after the first -/
def bcoll : Option (List (K × V)) → Nat
  | none => 0
  | some l => l.length - 1

/-- representation invariant of ares_htable_t -/
structure Inv (ops : HOps K) (t : HTable K V) : Prop where
  len : t.buckets.length = t.size
  pow : ∃ k, t.size = HTABLE_MIN_BUCKETS * 2 ^ k
  szmax : t.size ≤ HTABLE_MAX_BUCKETS
  /-- every node sits in the bucket its key hashes to -/
  placed : ∀ i l, t.buckets[i]? = some (some l) → ∀ e ∈ l, hidx ops t.size e.1 = i
  /-- no two nodes have equal keys -/
  uniq : (entries t).Pairwise (fun a b => ops.eq a.1 b.1 = false)
  nkeys : t.numKeys = (entries t).length
  /-- `num_collisions` = Σ over the buckets of (length − 1) -/
  ncoll : t.numCollisions = (t.buckets.map bcoll).sum
  /-- growth at the expand percentage keeps the load bounded (until the maximum size is reached) -/
  load : t.numKeys ≤ t.size * HTABLE_EXPAND_PERCENT / 100 ∨ t.size = HTABLE_MAX_BUCKETS

/-- the association map a table stands for: the node whose key equals `q`, looked up among *all* nodes -/
def abs (ops : HOps K) (t : HTable K V) (q : K) : Option (K × V) :=
  (entries t).find? (fun e => ops.eq q e.1)

end HTable

/-! ### the hash functions of ares_htable.c (unsigned int arithmetic, made explicit with `u32`) -/

def u32 (x : Nat) : Nat := x % 2 ^ 32

/-- `hv += (hv << 1) + (hv << 4) + (hv << 7) + (hv << 8) + (hv << 24);` -/
def fnvShiftAdd (hv : Nat) : Nat :=
  u32 (hv + u32 (u32 (u32 (u32 (u32 (hv <<< 1) + u32 (hv <<< 4)) + u32 (hv <<< 7)) + u32 (hv <<< 8)) + u32 (hv <<< 24)))

def fnvStep (hv c : Nat) : Nat := fnvShiftAdd (hv ^^^ c)

/-- ares_htable_hash_FNV1a -/
def fnv1a (key : List Nat) (seed : Nat) : Nat := key.foldl fnvStep (seed ^^^ 2166136261)

/-- ares_tolower: table lookup -/
def tolower (c : Nat) : Nat := TOLOWER.getD c c

/-- ares_htable_hash_FNV1a_casecmp -/
def fnv1aCase (key : List Nat) (seed : Nat) : Nat :=
  key.foldl (fun hv c => fnvStep hv (tolower c)) (seed ^^^ 2166136261)

/-- ares_strcasecmp(a, b) == 0 for NUL-free byte strings (the portable loop of ares_str.c): compares
    tolower() of the bytes position by position, the terminating NUL included -/
def strCaseEq : List Nat → List Nat → Bool
  | [], [] => true
  | a :: as, b :: bs => tolower a == tolower b && strCaseEq as bs
  | [], b :: _ => 0 == tolower b      -- NUL against a byte
  | a :: _, [] => tolower a == 0

end Cares.Dsa
