/-
Allocation oracle shared by the container models (DESIGN.md section 4: `malloc` family = oracle input).

Every call of ares_malloc / ares_realloc made by the modelled code consumes one oracle position, in
program order.  `fails n = true` means "the n-th allocation call of this case returns NULL".
`alloc failnth k` of the h_dsa protocol sets `fails := (· = pos + k - 1)`.
-/
namespace Cares.Dsa

structure Oracle where
  fails : Nat → Bool
  pos : Nat

namespace Oracle

/-- no allocation ever fails -/
def ok : Oracle := { fails := fun _ => false, pos := 0 }

/-- one allocation call: (succeeded?, oracle afterwards) -/
def next (o : Oracle) : Bool × Oracle := (!o.fails o.pos, { o with pos := o.pos + 1 })

/-- `n` allocation calls in a row, stopping after the first failure (the C code bails out there) -/
def nextN (o : Oracle) : Nat → Bool × Oracle
  | 0 => (true, o)
  | n + 1 =>
    match o.next with
    | (true, o1) => o1.nextN n
    | (false, o1) => (false, o1)

/-- the k-th allocation call from now fails (k ≥ 1), all others succeed -/
def failNth (o : Oracle) (k : Nat) : Oracle :=
  { o with fails := fun n => k ≠ 0 && n == o.pos + k - 1 }

def AllOk (o : Oracle) : Prop := ∀ n, o.fails n = false

end Oracle
end Cares.Dsa
