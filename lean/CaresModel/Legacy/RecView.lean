import CaresModel.Dns.Rec
import CaresModel.Generated.DnsTables
import CaresModel.Legacy.Basic
/-
The legacy models work on `LRec` (question names + answers with the fields of their type).  This file
connects it with the shared record type `Cares.Dns.Rec`:

* `LRec.ofRec`  — what the getters used by the legacy code return on a `Rec`
  (`ares_dns_rr_get_u16(rr, key)` = the value stored under `key`, 0 / empty when absent);
* `parseDump`   — reads the canonical one-line dump (`Cares.Dns.Rec.dump`, harness/hcodec_dump.h) back
  into a `Rec`; used by the trace-mode driver, which receives the dump printed by the implementation.
-/
namespace Cares.Legacy
open Cares.Dns

def valBytes : Option Val → Bytes
  | some (.name (some s)) => s
  | some (.str (some s)) => s
  | some (.bin (some s)) => s
  | some (.addr b) => b
  | some (.addr6 b) => b
  | _ => []

def valNat : Option Val → Nat
  | some (.u8 n) => n
  | some (.u16 n) => n
  | some (.u32 n) => n
  | _ => 0

def valAbin : Option Val → List Bytes
  | some (.abin l) => l
  | _ => []

/-- the getters of one answer, by `ares_dns_rr_get_type` -/
def rdataOf (rr : Dns.RR) : RData :=
  let s (k : Nat) := valBytes (rr.get? k)
  let n (k : Nat) := valNat (rr.get? k)
  if rr.type = RecType.a then .a (s Key.aAddr)
  else if rr.type = RecType.aaaa then .aaaa (s Key.aaaaAddr)
  else if rr.type = RecType.ns then .ns (s Key.nsNsdname)
  else if rr.type = RecType.cname then .cname (s Key.cnameCname)
  else if rr.type = RecType.soa then
    .soa (s Key.soaMname) (s Key.soaRname) (n Key.soaSerial) (n Key.soaRefresh) (n Key.soaRetry)
      (n Key.soaExpire) (n Key.soaMinimum)
  else if rr.type = RecType.ptr then .ptr (s Key.ptrDname)
  else if rr.type = RecType.mx then .mx (n Key.mxPreference) (s Key.mxExchange)
  else if rr.type = RecType.txt then .txt (valAbin (rr.get? Key.txtData))
  else if rr.type = RecType.srv then .srv (n Key.srvPriority) (n Key.srvWeight) (n Key.srvPort) (s Key.srvTarget)
  else if rr.type = RecType.naptr then
    .naptr (n Key.naptrOrder) (n Key.naptrPreference) (s Key.naptrFlags) (s Key.naptrServices)
      (s Key.naptrRegexp) (s Key.naptrReplacement)
  else if rr.type = RecType.uri then .uri (n Key.uriPriority) (n Key.uriWeight) (s Key.uriTarget)
  else if rr.type = RecType.caa then .caa (n Key.caaCritical) (s Key.caaTag) (s Key.caaValue)
  else .other rr.type

def rrOf (rr : Dns.RR) : RR := { name := rr.name, cls := rr.cls, ttl := rr.ttl, data := rdataOf rr }

def LRec.ofRec (r : Rec) : LRec :=
  { questions := r.qd.map (·.name), answers := r.an.map rrOf }

/-! ## reading the canonical dump -/

def hexNib (c : Char) : Option Nat :=
  if '0' ≤ c ∧ c ≤ '9' then some (c.toNat - 48)
  else if 'a' ≤ c ∧ c ≤ 'f' then some (c.toNat - 87)
  else none

def unhexList : List Char → Option Bytes
  | [] => some []
  | [_] => none
  | a :: b :: rest => do
    let x ← hexNib a
    let y ← hexNib b
    let r ← unhexList rest
    pure (UInt8.ofNat (x * 16 + y) :: r)

/-- `-` = empty, otherwise lower-case hex -/
def unhex (s : String) : Option Bytes := if s = "-" then some [] else unhexList s.toList

/-- `~` = NULL -/
def unhexOpt (s : String) : Option (Option Bytes) :=
  if s = "~" then some none else (unhex s).map some

def stripBrackets (s : String) : String := ((s.drop 1).dropEnd 1).toString

def parseOptItem (item : String) : Option (Nat × Bytes) :=
  match item.splitOn ":" with
  | [id, v] => do
    let i ← id.toNat?
    let b ← unhex v
    pure (i, b)
  | _ => none

def parseVal (datatype : Nat) (s : String) : Option Val :=
  match datatype with
  | 1 => (unhex s).map .addr
  | 2 => (unhex s).map .addr6
  | 3 => s.toNat?.map .u8
  | 4 => s.toNat?.map .u16
  | 5 => s.toNat?.map .u32
  | 6 => (unhexOpt s).map .name
  | 7 => (unhexOpt s).map .str
  | 8 => (unhexOpt s).map .bin
  | 9 => (unhexOpt s).map .bin
  | 10 =>
    let inner := stripBrackets s
    if inner = "" then some (.opt [])
    else ((inner.splitOn ",").mapM parseOptItem).map .opt
  | 11 =>
    let inner := stripBrackets s
    if inner = "" then some (.abin [])
    else ((inner.splitOn ",").mapM unhex).map .abin
  | _ => none

/-- `k=v` -/
def kv (tok : String) : Option (String × String) :=
  match tok.splitOn "=" with
  | [k, v] => some (k, v)
  | _ => none

def kvNat (key : String) (tok : String) : Option Nat := do
  let (k, v) ← kv tok
  if k = key then v.toNat? else none

def parseField (tok : String) : Option (Nat × Val) := do
  let (k, v) ← kv tok
  let key ← k.toNat?
  let val ← parseVal (Cares.Generated.keyDatatype key) v
  pure (key, val)

def parseSect (s : String) : Option Sect :=
  if s = "s=an" then some .answer else if s = "s=ns" then some .authority
  else if s = "s=ar" then some .additional else none

def flagBit (key : String) (bitv : Nat) (tok : String) : Option Nat := do
  let b ← kvNat key tok
  pure (if b = 1 then bitv else 0)

/-- one ` ; `-separated item -/
def parseItem (r : Rec) (item : String) : Option Rec :=
  match (item.splitOn " ").filter (· ≠ "") with
  | ["H", id, qr, op, aa, tc, rd, ra, ad, cd, rc] => do
    let flags := (← flagBit "qr" Flag.qr qr) + (← flagBit "aa" Flag.aa aa) + (← flagBit "tc" Flag.tc tc) +
      (← flagBit "rd" Flag.rd rd) + (← flagBit "ra" Flag.ra ra) + (← flagBit "ad" Flag.ad ad) +
      (← flagBit "cd" Flag.cd cd)
    pure { r with id := (← kvNat "id" id), flags := flags, opcode := (← kvNat "op" op), rcode := (← kvNat "rc" rc) }
  | ["Q", n, t, c] => do
    let (k, v) ← kv n
    if k ≠ "n" then none
    let q : Question := { name := (← unhex v), qtype := (← kvNat "t" t), qclass := (← kvNat "c" c) }
    pure { r with qd := r.qd ++ [q] }
  | "RR" :: s :: n :: t :: c :: ttl :: fields => do
    let sect ← parseSect s
    let (k, v) ← kv n
    if k ≠ "n" then none
    let fs ← fields.mapM parseField
    let rr : Dns.RR := { name := (← unhex v), type := (← kvNat "t" t), cls := (← kvNat "c" c),
                         ttl := (← kvNat "ttl" ttl), fields := fs }
    match sect with
    | .answer => pure { r with an := r.an ++ [rr] }
    | .authority => pure { r with ns := r.ns ++ [rr] }
    | .additional => pure { r with ar := r.ar ++ [rr] }
  | _ => none

def parseDump (line : String) : Option Rec :=
  (line.splitOn " ; ").foldlM parseItem
    { id := 0, flags := 0, opcode := 0, rcode := 0, qd := [], an := [], ns := [], ar := [] }

end Cares.Legacy
