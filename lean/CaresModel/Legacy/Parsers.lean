import CaresModel.AddrInfo
/-
Models of the legacy reply parsers, src/lib/legacy/ares_parse_{a,aaaa,caa,mx,naptr,ns,ptr,soa,srv,txt,uri}_reply.c.

Each C function is `ares_dns_parse()` followed by a conversion of the parsed record.  The result of
`ares_dns_parse()` is the argument `p : ParseResult` (the record parser is modelled and verified
elsewhere, C02–C04); `alen < 0` is not modelled (the functions return EBADRESP before parsing).
Allocation succeeds (allocation failures belong to C14).

Each model follows the C control flow: the early exits, the answer loop with its own class/type test,
the per-parser "no data" rule and the final status mapping (which differs between the files:
a/aaaa/ns/ptr/soa map EBADNAME to EBADRESP, caa/mx/naptr/srv/txt/uri return the parser's status as is).
-/
namespace Cares.Legacy
open Cares.AddrInfo

/-! ### ares_parse_a_reply / ares_parse_aaaa_reply -/

/-- result of `ares_parse_a_reply` / `ares_parse_aaaa_reply`:
    status, `*host` (when a host pointer was passed), the entries written to `addrttls`
    and the value left in `*naddrttls` -/
structure AddrReply where
  status : Status
  host   : Option Hostent
  ttls   : List (Bytes × Int)
  deriving Repr, DecidableEq

/-- `wantHost` : `host != NULL`; `cap` : `some n` when `addrttls != NULL` and `*naddrttls = n`
    (`none` when `addrttls == NULL`) -/
def parseAddrReply (family : Nat) (p : ParseResult) (wantHost : Bool) (cap : Option Nat) : AddrReply :=
  match p with
  | .error e => { status := e.compat, host := none, ttls := [] }
  | .ok r =>
    let (st, ai) := parseIntoAddrinfo r false 0 {}
    if st ≠ .success ∧ st ≠ .enodata then { status := st.compat, host := none, ttls := [] }
    else
      let (st, host) :=
        if wantHost then addrinfo2hostent ai family else (st, none)
      if st ≠ .success ∧ st ≠ .enodata then { status := st.compat, host := none, ttls := [] }
      else
        let ttls := match cap with
          | some req => if req ≠ 0 then (addrinfo2addrttl ai family req).2 else []
          | none => []
        { status := st.compat, host := host, ttls := ttls }

def parseAReply := parseAddrReply afINET
def parseAaaaReply := parseAddrReply afINET6

/-! ### list-building parsers -/

structure CaaReply where
  critical : Nat
  prop     : Bytes      -- `property`, `plength = strlen(property)`
  value    : Bytes      -- `value`, `length`
  deriving Repr, DecidableEq

/-- "XXX: Why do we allow Chaos class?" -/
def caaSel (rr : RR) : List CaaReply :=
  if rr.cls ≠ clsIN ∧ rr.cls ≠ clsCHAOS then []
  else match rr.data with
    | .caa critical tag value => [{ critical := critical, prop := tag, value := value }]
    | _ => []

structure MxReply where
  host     : Bytes
  priority : Nat
  deriving Repr, DecidableEq

def mxSel (rr : RR) : List MxReply :=
  if rr.cls ≠ clsIN then []
  else match rr.data with
    | .mx pref exch => [{ host := exch, priority := pref }]
    | _ => []

structure NaptrReply where
  flags : Bytes
  service : Bytes
  regexp : Bytes
  replacement : Bytes
  order : Nat
  preference : Nat
  deriving Repr, DecidableEq

def naptrSel (rr : RR) : List NaptrReply :=
  if rr.cls ≠ clsIN then []
  else match rr.data with
    | .naptr order pref flags services regexp replacement =>
      [{ flags := flags, service := services, regexp := regexp, replacement := replacement,
         order := order, preference := pref }]
    | _ => []

structure SrvReply where
  host : Bytes
  priority : Nat
  weight : Nat
  port : Nat
  deriving Repr, DecidableEq

def srvSel (rr : RR) : List SrvReply :=
  if rr.cls ≠ clsIN then []
  else match rr.data with
    | .srv prio weight port target => [{ host := target, priority := prio, weight := weight, port := port }]
    | _ => []

structure UriReply where
  priority : Nat
  weight : Nat
  uri : Bytes
  ttl : Int
  deriving Repr, DecidableEq

def uriSel (rr : RR) : List UriReply :=
  if rr.cls ≠ clsIN then []
  else match rr.data with
    | .uri prio weight target => [{ priority := prio, weight := weight, uri := target, ttl := toI32 rr.ttl }]
    | _ => []

/-- `struct ares_txt_ext` (`record_start` stays 0 in the non-`ext` variant) -/
structure TxtReply where
  txt         : Bytes
  recordStart : Bool
  deriving Repr, DecidableEq

/-- the inner loop `for (j = 0; j < cnt; j++)` over the chunks of one TXT record -/
def txtChunks (ex : Bool) : List Bytes → Nat → List TxtReply
  | [], _ => []
  | c :: rest, j => { txt := c, recordStart := ex && j == 0 } :: txtChunks ex rest (j + 1)

/-- "XXX: Why Chaos?" -/
def txtSel (ex : Bool) (rr : RR) : List TxtReply :=
  if (rr.cls ≠ clsIN ∧ rr.cls ≠ clsCHAOS) then []
  else match rr.data with
    | .txt chunks => txtChunks ex chunks 0
    | _ => []

/-- common frame of caa/mx/naptr/srv/txt/uri: parse status returned unchanged, empty answer section
    is ENODATA, otherwise SUCCESS with whatever the loop collected (possibly nothing: `*out = NULL`) -/
def parseListReply {β : Type} (sel : RR → List β) (p : ParseResult) : Status × List β :=
  match p with
  | .error e => (e, [])
  | .ok r =>
    if r.answers.isEmpty then (.enodata, [])
    else (.success, appendLoop sel r.answers [])

def parseCaaReply := parseListReply caaSel
def parseMxReply := parseListReply mxSel
def parseNaptrReply := parseListReply naptrSel
def parseSrvReply := parseListReply srvSel
def parseUriReply := parseListReply uriSel
def parseTxtReply := parseListReply (txtSel false)
def parseTxtReplyExt := parseListReply (txtSel true)

/-! ### ares_parse_ns_reply -/

def nsSel (rr : RR) : List Bytes :=
  if rr.cls ≠ clsIN then []
  else match rr.data with
    | .ns d => [d]
    | _ => []

def parseNsReply (p : ParseResult) : Status × Option Hostent :=
  match p with
  | .error e => (e.compat, none)
  | .ok r =>
    if r.answers.isEmpty then (.enodata, none)
    else match r.queryName with
      | .error e => (e.compat, none)
      | .ok hostname =>
        let aliases := appendLoop nsSel r.answers []
        if aliases.length = 0 then (.enodata, none)
        else (.success, some { name := some hostname, aliases := aliases, addrtype := afINET,
                               length := 4, addrs := [] })

/-! ### ares_parse_ptr_reply -/

def parsePtrReplyBuf (p : ParseResult) (addr : Option Bytes) (addrlen family : Nat) : Status × Option Hostent :=
  match p with
  | .error e => (e.compat, none)
  | .ok r =>
    let (st, h) := parsePtrReply r addr addrlen family
    (st.compat, h)

/-! ### ares_parse_soa_reply -/

structure SoaReply where
  nsname : Bytes
  hostmaster : Bytes
  serial : Nat
  refresh : Nat
  retry : Nat
  expire : Nat
  minttl : Nat
  deriving Repr, DecidableEq

/-- the answer loop: the first SOA in class IN ends it (`break`) -/
def soaLoop : List RR → Option SoaReply
  | [] => none
  | rr :: rest =>
    if rr.cls ≠ clsIN then soaLoop rest
    else match rr.data with
      | .soa mname rname serial refresh retry expire minimum =>
        some { nsname := mname, hostmaster := rname, serial := serial, refresh := refresh,
               retry := retry, expire := expire, minttl := minimum }
      | _ => soaLoop rest

/-- no answers: EBADRESP ("ENODATA might make more sense"); no SOA among them: EBADRESP -/
def parseSoaReply (p : ParseResult) : Status × Option SoaReply :=
  match p with
  | .error e => (e.compat, none)
  | .ok r =>
    if r.answers.isEmpty then (.ebadresp, none)
    else match soaLoop r.answers with
      | none => (.ebadresp, none)
      | some s => (.success, some s)

end Cares.Legacy
