/-
Common definitions for the models of the legacy reply parsers (src/lib/legacy/ares_parse_*_reply.c)
and of the addrinfo conversions (ares_parse_into_addrinfo.c, ares_addrinfo2hostent.c …).

The legacy parsers are `ares_dns_parse()` followed by a conversion loop over the *parsed record*
through the public getters.  The models therefore work on a view of the parsed record
(`LRec`): the question names and the answer section, every answer carrying the fields the getters
return for its type.  The result of `ares_dns_parse()` itself is an input (`ParseResult`).

  C                                         model
  ares_status_t                             `Status` (the codes that can occur here)
  const char * (NUL terminated)             `Bytes` (the bytes before the NUL); NULL = `none`
  unsigned int ttl  cast to  int            `toI32` (two's complement, as the C cast does)
  struct in_addr / ares_in6_addr            `Bytes` of length 4 / 16 (network order)
-/
namespace Cares.Legacy

abbrev Bytes := List UInt8

/-- `ares_status_t`, restricted to the codes these functions can produce or forward -/
inductive Status where
  | success | enodata | eformerr | enotfound | ebadquery | ebadname | ebadfamily | ebadresp
  | enomem | ebadstr
  | other (code : Nat)
  deriving Repr, DecidableEq, Inhabited

namespace Status

/-- numeric value in `ares.h` -/
def code : Status → Nat
  | success => 0 | enodata => 1 | eformerr => 2 | enotfound => 4 | ebadquery => 7 | ebadname => 8
  | ebadfamily => 9 | ebadresp => 10 | enomem => 15 | ebadstr => 17 | other n => n

def ofCode : Nat → Status
  | 0 => success | 1 => enodata | 2 => eformerr | 4 => enotfound | 7 => ebadquery | 8 => ebadname
  | 9 => ebadfamily | 10 => ebadresp | 15 => enomem | 17 => ebadstr | n => other n

/-- the "malformed message" class: every status `ares_dns_parse()` can fail with except ENOMEM -/
def isMalformed : Status → Bool
  | eformerr | ebadname | ebadresp | ebadstr => true
  | _ => false

/-- the "compatibility" mapping at the end of several legacy functions: EBADNAME → EBADRESP -/
def compat : Status → Status
  | ebadname => ebadresp
  | s => s

theorem compat_isMalformed (s : Status) : s.compat.isMalformed = s.isMalformed := by
  cases s <;> rfl

end Status

def clsIN : Nat := 1
def clsCHAOS : Nat := 3
def afINET : Nat := 2
def afINET6 : Nat := 10
def afUNSPEC : Nat := 0
def intMax : Int := 2147483647

/-- `(int)x` for an `unsigned int` x (two's complement wrap) -/
def toI32 (n : Nat) : Int :=
  let m := n % 4294967296
  if m < 2147483648 then (m : Int) else (m : Int) - 4294967296

/-- what the record getters return for an answer, by record type -/
inductive RData where
  | a (addr : Bytes)
  | aaaa (addr : Bytes)
  | ns (nsdname : Bytes)
  | cname (cname : Bytes)
  | soa (mname rname : Bytes) (serial refresh retry expire minimum : Nat)
  | ptr (dname : Bytes)
  | mx (preference : Nat) (exchange : Bytes)
  | txt (chunks : List Bytes)
  | srv (priority weight port : Nat) (target : Bytes)
  | naptr (order preference : Nat) (flags services regexp replacement : Bytes)
  | uri (priority weight : Nat) (target : Bytes)
  | caa (critical : Nat) (tag value : Bytes)
  | other (type : Nat)
  deriving Repr, DecidableEq, Inhabited

/-- one resource record of the answer section as the getters present it -/
structure RR where
  name : Bytes
  cls  : Nat
  ttl  : Nat
  data : RData
  deriving Repr, DecidableEq, Inhabited

/-- the parts of a parsed `ares_dns_record_t` the legacy functions look at -/
structure LRec where
  questions : List Bytes      -- question names (`ares_dns_parse` only accepts exactly one)
  answers   : List RR
  deriving Repr, DecidableEq, Inhabited

/-- result of `ares_dns_parse(abuf, alen, 0, &dnsrec)` -/
abbrev ParseResult := Except Status LRec

/-- `ares_dns_record_query_get(dnsrec, 0, &name, NULL, NULL)` -/
def LRec.queryName (r : LRec) : Except Status Bytes :=
  match r.questions with
  | [] => .error .eformerr
  | q :: _ => .ok q

/-- `struct hostent` -/
structure Hostent where
  name     : Option Bytes
  aliases  : List Bytes
  addrtype : Nat
  length   : Nat
  addrs    : List Bytes
  deriving Repr, DecidableEq, Inhabited

/-- tail-append loop shared by the list-building parsers:
    `for (i = 0; i < cnt; i++) { rr = get(i); if (skip) continue; node = alloc; last->next = node; … }`
    `f rr` is the list of nodes one answer contributes (empty when it is skipped). -/
def appendLoop {β : Type} (f : RR → List β) : List RR → List β → List β
  | [], acc => acc
  | rr :: rest, acc => appendLoop f rest (acc ++ f rr)

/-- ASCII `ares_tolower` -/
def toLower (c : UInt8) : UInt8 := if 65 ≤ c ∧ c ≤ 90 then c + 32 else c

/-- `ares_strcaseeq` -/
def strCaseEq (a b : Bytes) : Bool := a.map toLower == b.map toLower

end Cares.Legacy
