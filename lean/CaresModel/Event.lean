import CaresModel.Generated.EvTimeout
import CaresModel.Generated.EvWake
/-
Model of the built-in event thread and its interaction with client threads
(src/lib/event/ares_event_thread.c: ares_event_thread(), ares_event_update(), ares_event_thread_wake();
 src/lib/ares_process.c: the wake added to ares_send_query(); src/lib/util/ares_threads.c:
 ares_queue_wait_empty()).

Two locks: the channel lock `L` (recursive, taken by every public entry point) and the event-thread mutex `M`
(protects the update list, `isup`, `process_pending_write`).  The wake pipe is level-triggered: once written
it stays readable until the event thread's wait returns and drains it.

The transition system is small-step: every lock acquisition is its own step so that lock order and the
window between "timeout computed" and "asleep" are visible.  Time is a millisecond counter advanced by
the environment.  `wakeOnEarliest` selects the code as it is in the tree (true: the wake-up guard of ares_send_query, regenerated
from the source) or as pinned (false: only a socket-state change wakes it).
-/
namespace Cares.Event

/-- program counter of the event thread (one iteration of the `while (e->isup)` loop) -/
inductive Pc where
  | procUpdates            -- holds M: ares_event_process_updates, then unlock M
  | wantTimeout            -- about to call ares_timeout: acquire L
  | inTimeout              -- holds L: compute the sleep time, release L
  | waiting (upto : Option Nat)  -- in ev_sys->wait(timeout): none = no timeout
  | wantPending            -- after wait: lock M, read process_pending_write, unlock M
  | wantProcess            -- lock M, test isup, unlock M, then ares_process_fds: acquire L
  | inProcess              -- holds L: process read events and timeouts, release L
  | relock                 -- lock M again before looping
  | exited
  deriving Repr, DecidableEq, Inhabited

/-- what a client thread is doing inside ares_send_*() -/
inductive CPc where
  | idle
  | inSend (deadline : Nat) (stateChange : Bool)   -- holds L: query enqueued; socket state may have changed
  | inUpdate (deadline : Nat)                      -- holds L and M: ares_event_update()
  deriving Repr, DecidableEq, Inhabited

structure St where
  wakeOnEarliest : Bool := true
  now : Nat := 0
  pc : Pc := .procUpdates
  etHoldsM : Bool := true
  etHoldsL : Bool := false
  cpc : CPc := .idle           -- one representative client thread
  cHoldsL : Bool := false
  cHoldsM : Bool := false
  updates : Nat := 0           -- queued socket updates
  wake : Bool := false         -- wake pipe readable
  isup : Bool := true
  deadlines : List Nat := []   -- deadlines of the queries in queries_by_timeout
  lockOrderViolations : Nat := 0   -- ghost: a thread asked for L while holding M
  deriving Repr, DecidableEq, Inhabited

inductive Step where
  | et                       -- the event thread takes its next step (if enabled)
  | clientSend (deadline : Nat) (stateChange : Bool)   -- client calls ares_send_*(): acquire L, enqueue
  | client                   -- the client takes its next step
  | tick (ms : Nat)          -- time passes
  | fdEvent                  -- a watched descriptor becomes readable
  deriving Repr, DecidableEq, Inhabited

def lFree (s : St) : Bool := !s.etHoldsL && !s.cHoldsL
def mFree (s : St) : Bool := !s.etHoldsM && !s.cHoldsM

def minOpt : List Nat → Option Nat
  | [] => none
  | x :: r => match minOpt r with
    | none => some x
    | some y => some (min x y)

/-- milliseconds handed to `ev_sys->wait` when `rem` ms remain until the earliest deadline: ares_timeout() returns
    the remaining time as sec/usec and the event loop converts it with the expression that
    tools/gen_evtimeout.py re-extracts from ares_event_thread() on every run -/
def waitMs (rem : Nat) : Nat := Cares.Generated.Ev.timeoutMs (rem / 1000) (rem % 1000 * 1000)

/-- absolute instant until which the thread may sleep; `none` = no timeout.  Every backend (epoll, poll, select,
    kqueue, win32) treats `timeout_ms == 0` as "wait forever", so a computed 0 is `none`, exactly like the
    initial value used when ares_timeout() returns NULL. -/
def sleepUntil (s : St) : Option Nat :=
  match minOpt s.deadlines with
  | none => if Cares.Generated.Ev.timeoutMsNone = 0 then none else some (s.now + Cares.Generated.Ev.timeoutMsNone)
  | some d =>
    let ms := waitMs (d - s.now)
    if ms = 0 then none else some (s.now + ms)

def timedOut (u : Option Nat) (now : Nat) : Bool :=
  match u with
  | some t => decide (now ≥ t)
  | none => false

/-- count a request for `L` made while holding `M` (ghost) -/
def noteAskL (s : St) : St :=
  if s.etHoldsM then { s with lockOrderViolations := s.lockOrderViolations + 1 } else s

def etProcUpdates (s : St) : St :=
  if !s.etHoldsM then s else
  if !s.isup then { s with pc := .exited, etHoldsM := false } else
  { s with updates := 0, etHoldsM := false, pc := .wantTimeout }

def etWantTimeout (s : St) : St :=
  let s := noteAskL s
  if lFree s then { s with etHoldsL := true, pc := .inTimeout } else s

def etInTimeout (s : St) : St := { s with etHoldsL := false, pc := .waiting (sleepUntil s) }

def etWaiting (s : St) (u : Option Nat) : St :=
  if s.wake || timedOut u s.now then { s with wake := false, pc := .wantPending } else s

def etWantPending (s : St) : St := if mFree s then { s with pc := .wantProcess } else s

def etWantProcess (s : St) : St :=
  if mFree s then
    if !s.isup then { s with pc := .relock } else
    let s := noteAskL s
    if lFree s then { s with etHoldsL := true, pc := .inProcess } else s
  else s

/-- process_timeouts: expired queries are retried (a later deadline, added by the event thread itself before it
    computes its next sleep: abstracted as removal) or failed -/
def etInProcess (s : St) : St :=
  { s with deadlines := s.deadlines.filter (fun d => d > s.now), etHoldsL := false, pc := .relock }

def etRelock (s : St) : St := if mFree s then { s with etHoldsM := true, pc := .procUpdates } else s

def etStep (s : St) : St :=
  match s.pc with
  | .procUpdates => etProcUpdates s
  | .wantTimeout => etWantTimeout s
  | .inTimeout => etInTimeout s
  | .waiting u => etWaiting s u
  | .wantPending => etWantPending s
  | .wantProcess => etWantProcess s
  | .inProcess => etInProcess s
  | .relock => etRelock s
  | .exited => s

/-- ares_send_query under the channel lock: the query is in queries_by_timeout; the repaired code wakes the
    event thread when this deadline is now the earliest -/
def clientSend (s : St) (d : Nat) (sc : Bool) : St :=
  if s.cpc != .idle then s else
  if !lFree s then s else
  -- the guard of the wake-up in ares_send_query, as tools/gen_evwake.py re-extracts it from the source on every run
  let wakes := Cares.Generated.Ev.wakeOnSend d s.deadlines
  { s with cHoldsL := true, deadlines := d :: s.deadlines, cpc := .inSend d sc,
           wake := s.wake || (s.wakeOnEarliest && wakes) }

def clientStep (s : St) : St :=
  match s.cpc with
  | .idle => s
  | .inSend d sc =>
    if sc then
      -- ares_conn_sock_state_cb_update -> ares_event_update: needs M (while holding L)
      if mFree s then { s with cHoldsM := true, cpc := .inUpdate d } else s
    else { s with cHoldsL := false, cpc := .idle }
  | .inUpdate _ =>
    -- enqueue the update, wake the thread, unlock M, then leave the API (unlock L)
    { s with updates := s.updates + 1, wake := true, cHoldsM := false, cHoldsL := false, cpc := .idle }

def step (s : St) : Step → St
  | .tick ms => { s with now := s.now + ms }
  | .fdEvent => { s with wake := true }   -- level-triggered readiness: the wait returns
  | .clientSend d sc => clientSend s d sc
  | .client => clientStep s
  | .et => etStep s

def run (s : St) (steps : List Step) : St := steps.foldl step s

/-- no lost wake-up: while the event thread is asleep (or about to sleep with the computed timeout)
    either a wake is pending or its timeout covers every pending deadline -/
def Covered (s : St) : Prop :=
  ∀ u, (s.pc = .waiting u) → s.wake = true ∨ ∀ d ∈ s.deadlines, ∃ t, u = some t ∧ t ≤ max d s.now + 1

/-- ares_queue_wait_empty: the loop condition is evaluated under the channel lock -/
def waitEmptyReturnsSuccess (queries : Nat) (timedOut : Bool) : Bool := queries == 0 && !timedOut

end Cares.Event
