import CaresModel.Dns.Rec
import CaresModel.Dns.NameWrite
/-!
# The public record builder API (`src/lib/record/ares_dns_record.c`, `ares_dns_mapping.c`)

`ares_dns_record_create`, `ares_dns_record_query_add`, `ares_dns_record_rr_add` and the typed setters
with the validity checks they perform, plus `ares_dns_record_create_query`.  A record here is what the
public getters show (`Cares.Dns.Rec`): an RR always carries every key of its type, unset values being
0 / all-zero address / NULL / empty list.
-/
namespace Cares.Dns.Build
open Cares.Dns Cares.Dns.NameW

/-! ## validity switches of `ares_dns_mapping.c` (hand copies; compared with the regenerated tables by
    `decide` obligations in `CaresProps/C03.lean` once `Generated/DnsTables.lean` exists) -/

def opcodeValid (op : Nat) : Bool := op = 0 || op = 1 || op = 2 || op = 4 || op = 5

def rcodeValid (rc : Nat) : Bool := rc ≤ 11 || (16 ≤ rc && rc ≤ 23)

/-- `ares_dns_flags_arevalid` on an `unsigned short` -/
def flagsValid (fl : Nat) : Bool := fl &&& 0xFF80 = 0

def knownTypes : List Nat := [1, 2, 5, 6, 12, 13, 15, 16, 24, 28, 33, 35, 41, 52, 64, 65, 255, 256, 257]

/-- `ares_dns_rec_type_isvalid(type, is_query)` -/
def recTypeValid (t : Nat) (isQuery : Bool) : Bool :=
  if knownTypes.contains t then true
  else if t = RecType.rawRR then !isQuery
  else if t > 0xFFFF then false
  else isQuery

/-- `ares_dns_class_isvalid(qclass, type, is_query)` -/
def classValid (c t : Nat) (isQuery : Bool) : Bool :=
  if t = RecType.rawRR then true
  else if c = 1 || c = 3 || c = 4 || c = 254 then true
  else if c = 255 then (t = RecType.sig || isQuery)
  else false

/-- `ares_dns_rec_allow_name_comp` -/
def allowNameComp (t : Nat) : Bool := [1, 2, 5, 6, 12, 13, 15, 16].contains t

/-- `ares_dns_datatype_t` -/
inductive DT where
  | inaddr | inaddr6 | u8 | u16 | u32 | name | str | bin | binp | opt | abinp
  deriving DecidableEq, Repr, Inhabited

/-- `ares_dns_rr_key_datatype` (`none` = the `return 0` default) -/
def keyDatatype (k : Nat) : Option DT :=
  if k = 101 then some .inaddr
  else if k = 2801 then some .inaddr6
  else if [201, 501, 601, 602, 1201, 1502, 2408, 3305, 6402, 6502, 3506, 25603].contains k then some .name
  else if [1301, 1302, 3503, 3504, 3505, 25702].contains k then some .str
  else if [603, 604, 605, 606, 607, 2404, 2405, 2406].contains k then some .u32
  else if [1501, 2401, 2407, 3302, 3303, 3304, 3501, 3502, 4101, 4104, 6401, 6501, 25601, 25602, 6553601].contains k
    then some .u16
  else if [2402, 2403, 4103, 5201, 5202, 5203, 25701].contains k then some .u8
  else if k = 25703 then some .binp
  else if k = 1601 then some .abinp
  else if [2409, 5204, 6553602].contains k then some .bin
  else if [4105, 6403, 6503].contains k then some .opt
  else none

/-- `ares_dns_rr_get_keys` -/
def rrKeys (t : Nat) : List Nat :=
  if t = 1 then [101] else if t = 2 then [201] else if t = 5 then [501]
  else if t = 6 then [601, 602, 603, 604, 605, 606, 607]
  else if t = 12 then [1201] else if t = 13 then [1301, 1302] else if t = 15 then [1501, 1502]
  else if t = 16 then [1601]
  else if t = 24 then [2401, 2402, 2403, 2404, 2405, 2406, 2407, 2408, 2409]
  else if t = 28 then [2801]
  else if t = 33 then [3302, 3303, 3304, 3305]
  else if t = 35 then [3501, 3502, 3503, 3504, 3505, 3506]
  else if t = 41 then [4101, 4103, 4104, 4105]
  else if t = 52 then [5201, 5202, 5203, 5204]
  else if t = 64 then [6401, 6402, 6403]
  else if t = 65 then [6501, 6502, 6503]
  else if t = 256 then [25601, 25602, 25603]
  else if t = 257 then [25701, 25702, 25703]
  else if t = 65536 then [6553601, 6553602]
  else []

/-- value of a key nobody has set -/
def defaultVal : DT → Val
  | .inaddr => .addr [0, 0, 0, 0]
  | .inaddr6 => .addr6 (List.replicate 16 0)
  | .u8 => .u8 0 | .u16 => .u16 0 | .u32 => .u32 0
  | .name => .name none | .str => .str none
  | .bin => .bin none | .binp => .bin none
  | .opt => .opt [] | .abinp => .abin []

def defaultFields (t : Nat) : List (Nat × Val) :=
  (rrKeys t).filterMap fun k => (keyDatatype k).map fun dt => (k, defaultVal dt)

/-! ## record, questions, RRs -/

/-- `ares_dns_record_create` (arguments already reduced to their C types by the caller) -/
def recordCreate (id flags opcode rcode : Nat) : Except WErr Rec :=
  if !opcodeValid opcode || !rcodeValid rcode || !flagsValid flags then .error .formerr
  else .ok { id := id, flags := flags, opcode := opcode, rcode := rcode, qd := [], an := [], ns := [], ar := [] }

/-- `ares_dns_record_query_add` -/
def queryAdd (r : Rec) (name : BStr) (qtype qclass : Nat) : Except WErr Rec :=
  if !recTypeValid qtype true || !classValid qclass qtype true then .error .formerr
  else .ok { r with qd := r.qd ++ [⟨name, qtype, qclass⟩] }

def sectValid (s : Nat) : Bool := s = 1 || s = 2 || s = 3

def addToSect (r : Rec) (s : Nat) (rr : RR) : Rec :=
  if s = 1 then { r with an := r.an ++ [rr] }
  else if s = 2 then { r with ns := r.ns ++ [rr] }
  else { r with ar := r.ar ++ [rr] }

/-- `ares_dns_record_rr_add`: the new RR (all keys unset) -/
def rrNew (sect : Nat) (name : BStr) (type cls ttl : Nat) : Except WErr RR :=
  if !sectValid sect || !recTypeValid type false || !classValid cls type false then .error .formerr
  else .ok { name := name, type := type, cls := cls, ttl := ttl, fields := defaultFields type }

/-! ## setters -/

/-- argument of one setter call, already typed the way the harness types it (by the key's datatype) -/
inductive SetArg where
  | u8 (n : Nat) | u16 (n : Nat) | u32 (n : Nat)
  | addr (b : BStr) | addr6 (b : BStr)
  | str (s : Option BStr)            -- ares_dns_rr_set_str (NAME and STR keys)
  | bin (b : BStr)                   -- ares_dns_rr_set_bin (BIN, BINP)
  | abinAdd (chunks : List BStr)     -- ares_dns_rr_add_abin per chunk
  | opts (l : List (Nat × BStr))     -- ares_dns_rr_set_opt per pair
  | bogus                            -- not a key at all
  deriving Repr, Inhabited

/-- `ares_dns_rr_data_ptr(rr, key, ..) != NULL`: the key belongs to the RR's type -/
def keyFits (rr : RR) (key : Nat) : Bool := (keyDatatype key).isSome && key / 100 = rr.type

def setField (rr : RR) (key : Nat) (v : Val) : RR :=
  { rr with fields := rr.fields.map fun p => if p.1 = key then (key, v) else p }

/-- `ares_dns_rr_set_opt_own`: replace the value of an existing id, else append -/
def optSet (l : List (Nat × BStr)) (id : Nat) (v : BStr) : List (Nat × BStr) :=
  if l.any (·.1 = id) then l.map fun p => if p.1 = id then (id, v) else p else l ++ [(id, v)]

def getOpts (rr : RR) (key : Nat) : List (Nat × BStr) :=
  match rr.get? key with | some (.opt l) => l | _ => []

def getAbin (rr : RR) (key : Nat) : List BStr :=
  match rr.get? key with | some (.abin l) => l | _ => []

/-- one typed setter call; `EFORMERR` when the datatype or the RR type does not match -/
def applySet (rr : RR) (key : Nat) (a : SetArg) : Except WErr RR :=
  let dt := keyDatatype key
  let fits := keyFits rr key
  match a with
  | .u8 n => if dt = some .u8 && fits then .ok (setField rr key (.u8 n)) else .error .formerr
  | .u16 n => if dt = some .u16 && fits then .ok (setField rr key (.u16 n)) else .error .formerr
  | .u32 n => if dt = some .u32 && fits then .ok (setField rr key (.u32 n)) else .error .formerr
  | .addr b => if dt = some .inaddr && fits then .ok (setField rr key (.addr b)) else .error .formerr
  | .addr6 b => if dt = some .inaddr6 && fits then .ok (setField rr key (.addr6 b)) else .error .formerr
  | .str s =>
    if dt = some .name && fits then .ok (setField rr key (.name s))
    else if dt = some .str && fits then .ok (setField rr key (.str s))
    else .error .formerr
  | .bin b =>
    -- ares_dns_rr_set_bin: `ares_malloc(len)` for BIN (len + 1 for BINP); the default allocator returns
    -- NULL for a zero-size request, so an empty BIN value is refused with ARES_ENOMEM
    if dt = some .bin && b.length = 0 then .error .nomem
    else if (dt = some .bin || dt = some .binp) && fits then .ok (setField rr key (.bin (some b))) else .error .formerr
  | .abinAdd chunks =>
    if dt = some .abinp && fits then .ok (setField rr key (.abin (getAbin rr key ++ chunks))) else .error .formerr
  | .opts l =>
    if dt = some .opt && fits then
      .ok (setField rr key (.opt (l.foldl (fun acc p => optSet acc p.1 p.2) (getOpts rr key))))
    else .error .formerr
  | .bogus => .error .formerr

/-- setters in order; stops at the first failure and reports its position (the RR keeps what was set) -/
def applySets (rr : RR) : List (Nat × SetArg) → Nat → RR × Option Nat
  | [], _ => (rr, none)
  | (k, a) :: rest, i =>
    match applySet rr k a with
    | .ok rr' => applySets rr' rest (i + 1)
    | .error _ => (rr, some i)

/-! ## `ares_dns_record_create_query` -/

def toLower (c : UInt8) : UInt8 := if 65 ≤ c.toNat && c.toNat ≤ 90 then c + 32 else c

/-- `ares_striendstr(s1, s2) != NULL` -/
def endsWithCI (s suffix : BStr) : Bool :=
  suffix.length ≤ s.length && (s.drop (s.length - suffix.length)).map toLower = suffix.map toLower

/-- `ares_is_onion_domain` -/
def isOnion (name : BStr) : Bool :=
  endsWithCI name [46, 111, 110, 105, 111, 110] || endsWithCI name [46, 111, 110, 105, 111, 110, 46]

/-- `ares_dns_record_create_query(name, dnsclass, type, id, flags, max_udp_size)` -/
def createQuery (name : BStr) (cls type id flags udp : Nat) : Except WErr Rec :=
  if isOnion name then .error .notfound else
  match recordCreate id flags 0 0 with
  | .error e => .error e
  | .ok r =>
    match queryAdd r name type cls with
    | .error e => .error e
    | .ok r =>
      if udp = 0 then .ok r
      else if udp > 65535 then .error .formerr
      else
        match rrNew 3 [] RecType.opt Class.in 0 with
        | .error e => .error e
        | .ok rr =>
          let rr := setField rr Key.optUdpSize (.u16 udp)
          let rr := setField rr Key.optVersion (.u8 0)
          let rr := setField rr Key.optFlags (.u16 0)
          .ok (addToSect r 3 rr)

end Cares.Dns.Build
