import CaresModel.Dns.Rec
/-!
# Writing domain names (`src/lib/record/ares_dns_name.c`, write side)

* `splitDnsName`  — `ares_split_dns_name` + `ares_parse_dns_name_escape`: presentation text → labels
  (`\DDD` and `\X` escapes, optional host-name character check, trailing dot, 63/255 limits);
* `findOff`       — `ares_nameoffset_find`: longest stored name that is a whole-label suffix
  (case-sensitive; the byte before the suffix must be `.`);
* `nameWrite`     — `ares_dns_name_write`: 512-byte `name_copy`, suffix match, labels, `0xC000 | (idx & 0x3FFF)`
  pointer, recording of the new name at the buffer position where it starts;
* `escapeName`    — the text the parser produces for a label list (`ares_fetch_dnsname_into_buf`), used to
  state the presentation round trip;
* `Decodes` / `decodeAt` — what a compressed name at an offset of a message denotes (RFC 1035 4.1.4 with
  the "strictly earlier" rule the parser enforces).

The buffer is not passed around: the only thing `ares_dns_name_write` reads from it is its current
length (`pos = ares_buf_len(buf)`), so the model takes `pos` and returns the bytes to append.
-/
namespace Cares.Dns.NameW
open Cares.Dns

/-- statuses the write path can fail with -/
inductive WErr where
  | formerr | badname | badquery | notfound | nomem
  deriving DecidableEq, Repr, Inhabited

def WErr.cls : WErr → String
  | .formerr => "badresp" | .badname => "badresp" | .badquery => "other" | .notfound => "notfound"
  | .nomem => "nomem"

/-! ## character classes (`src/lib/include/ares_str.h`) -/

def isDigit (c : UInt8) : Bool := 48 ≤ c.toNat && c.toNat ≤ 57
def isAlpha (c : UInt8) : Bool := (97 ≤ c.toNat && c.toNat ≤ 122) || (65 ≤ c.toNat && c.toNat ≤ 90)
/-- `ares_is_hostnamech` -/
def isHostnameCh (c : UInt8) : Bool :=
  isAlpha c || isDigit c || c.toNat = 45 || c.toNat = 46 || c.toNat = 95 || c.toNat = 47 || c.toNat = 42
/-- `ares_isprint` -/
def isPrint (c : UInt8) : Bool := 0x20 ≤ c.toNat && c.toNat ≤ 0x7E
/-- `is_reservedch` of ares_dns_name.c:  `"` `.` `;` `\` `(` `)` `@` `$` -/
def isReservedCh (c : UInt8) : Bool :=
  c.toNat = 34 || c.toNat = 46 || c.toNat = 59 || c.toNat = 92 || c.toNat = 40 || c.toNat = 41 ||
    c.toNat = 64 || c.toNat = 36

def dot : UInt8 := 46
def backslash : UInt8 := 92

/-! ## `ares_split_dns_name` as a byte-at-a-time machine -/

/-- where we are inside an escape -/
inductive Esc where
  | none
  | bs                 -- just read `\`
  | d1 (v : Nat)       -- `\D`
  | d2 (v : Nat)       -- `\DD`
  deriving DecidableEq, Repr, Inhabited

structure SplitSt where
  done : List BStr     -- finished labels, in order
  cur : BStr           -- label being filled
  esc : Esc
  deriving DecidableEq, Repr, Inhabited

def SplitSt.init : SplitSt := ⟨[], [], .none⟩

/-- one iteration of the `while (ares_buf_fetch_bytes(namebuf, &c, 1) == ARES_SUCCESS)` loop
    (an escape spans up to four iterations here; in C it is `ares_parse_dns_name_escape`) -/
def splitStep (validate : Bool) (s : SplitSt) (c : UInt8) : Except WErr SplitSt :=
  match s.esc with
  | .none =>
    if c = dot then .ok { done := s.done ++ [s.cur], cur := [], esc := .none }
    else if c = backslash then .ok { s with esc := .bs }
    else if validate && !isHostnameCh c then .error .badname
    else .ok { s with cur := s.cur ++ [c] }
  | .bs =>
    if isDigit c then .ok { s with esc := .d1 (c.toNat - 48) }
    else if validate && !isHostnameCh c then .error .badname
    else .ok { s with cur := s.cur ++ [c], esc := .none }
  | .d1 v =>
    if isDigit c then .ok { s with esc := .d2 (v * 10 + (c.toNat - 48)) } else .error .badname
  | .d2 v =>
    if isDigit c then
      let v' := v * 10 + (c.toNat - 48)
      if v' > 255 then .error .badname
      else if validate && !isHostnameCh (UInt8.ofNat v') then .error .badname
      else .ok { s with cur := s.cur ++ [UInt8.ofNat v'], esc := .none }
    else .error .badname

def splitRun (validate : Bool) (s : SplitSt) : BStr → Except WErr SplitSt
  | [] => .ok s
  | c :: rest =>
    match splitStep validate s c with
    | .ok s' => splitRun validate s' rest
    | .error e => .error e

/-- all labels including the (possibly empty) last one; an unfinished escape is `ARES_EBADNAME` -/
def splitRaw (validate : Bool) (name : BStr) : Except WErr (List BStr) :=
  match splitRun validate .init name with
  | .error e => .error e
  | .ok s => if s.esc = .none then .ok (s.done ++ [s.cur]) else .error .badname

/-- "Remove trailing blank label" and the `"."` special case (complete names only) -/
def trimLabels (ls : List BStr) : List BStr :=
  let ls1 := if ls.getLast? = some [] then ls.dropLast else ls
  if ls1 = [[]] then [] else ls1

def labelsLen (ls : List BStr) : Nat := (ls.map List.length).sum

/-- label lengths 1..63, and `total_len + cnt - 1 <= 255` -/
def labelsOk (ls : List BStr) : Bool :=
  ls.all (fun l => 0 < l.length && l.length ≤ 63) && (ls.length = 0 || labelsLen ls + ls.length - 1 ≤ 255)

/-- `ares_split_dns_name(labels, validate_hostname, is_complete, name)`: only a complete name may end in
    `.` or be empty; the text in front of a compression pointer keeps its blank labels, which are then
    rejected by the length check -/
def splitDnsName (validate : Bool) (name : BStr) (isComplete : Bool := true) : Except WErr (List BStr) :=
  match splitRaw validate name with
  | .error e => .error e
  | .ok ls => let t := if isComplete then trimLabels ls else ls; if labelsOk t then .ok t else .error .badname

/-- the labels a presentation text denotes (`splitDnsName` without the 255-byte total check, which the
    writer does not apply to a name it writes as labels + pointer) -/
def unescape (name : BStr) : Except WErr (List BStr) :=
  match splitRaw false name with
  | .error e => .error e
  | .ok ls => .ok (trimLabels ls)

/-- labels as they can stand on the wire: 1..63 bytes each -/
def wireLabels (ls : List BStr) : Bool := ls.all (fun l => 0 < l.length && l.length ≤ 63)

/-! ## the name-offset list -/

structure NameOff where
  name : BStr     -- `off->name`, the full presentation text (`name_len` = its length)
  idx : Nat       -- buffer length when the name was started
  deriving DecidableEq, Repr, Inhabited

/-- number of `\` immediately in front of position `i` (scanning backwards from `i - 1`) -/
def backslashesBefore (name : BStr) (i : Nat) : Nat :=
  ((name.take i).reverse.takeWhile (· = backslash)).length

/-- one iteration of the loop in `ares_nameoffset_find` -/
def findStep (name : BStr) (best : Option NameOff) (v : NameOff) : Option NameOff :=
  if v.name.length > name.length then best
  else if (match best with | some b => decide (b.name.length > v.name.length) | none => false) then best
  else
    let prefixLen := name.length - v.name.length
    if name.drop prefixLen ≠ v.name then best
    else if prefixLen ≠ 0 && name[prefixLen - 1]? ≠ some dot then best
    -- the dot must be a separator: an odd number of backslashes in front of it escapes it
    else if prefixLen ≠ 0 && backslashesBefore name (prefixLen - 1) % 2 ≠ 0 then best
    else some v

/-- `ares_nameoffset_find(list, name)` -/
def findOff (list : List NameOff) (name : BStr) : Option NameOff :=
  if name.length = 0 then none else list.foldl (findStep name) none

def be16 (n : Nat) : BStr := [UInt8.ofNat (n / 256 % 256), UInt8.ofNat (n % 256)]
def be32 (n : Nat) : BStr :=
  [UInt8.ofNat (n / 16777216 % 256), UInt8.ofNat (n / 65536 % 256), UInt8.ofNat (n / 256 % 256), UInt8.ofNat (n % 256)]

/-- labels on the wire: length byte then the bytes -/
def encodeLabels : List BStr → BStr
  | [] => []
  | l :: rest => UInt8.ofNat (l.length % 256) :: l ++ encodeLabels rest

/-- result of one `ares_dns_name_write` -/
structure NameOut where
  bytes : BStr              -- appended to the buffer
  names : List NameOff      -- the list afterwards
  trunc : Bool              -- `off->idx & 0x3FFF` dropped bits
  deriving DecidableEq, Repr, Inhabited

/-- size of `char name_copy[512]` -/
def nameCopySize : Nat := 512

/-- the pointer `0xC000 | (off->idx & 0x3FFF)` and whether the mask dropped bits -/
def ptrBytes (o : NameOff) : BStr × Bool := (be16 (0xC000 + o.idx % 0x4000), decide (o.idx ≥ 0x4000))

/-- "Store pointer for future jumps": `ares_nameoffset_create(list, name /* not truncated copy! */, pos)`
    when the name has labels and a 14-bit pointer can reach `pos`; the creation fails (`ARES_EFORMERR`)
    for a text longer than 255 characters -/
def remember (pos : Nat) (names : List NameOff) (name : BStr) (nameLen : Nat) (ls : List BStr) :
    Except WErr (List NameOff) :=
  if nameLen > 0 && !ls.isEmpty && pos ≤ 0x3FFF then
    if name.length = 0 || name.length > 255 then .error .formerr else .ok (names ++ [⟨name, pos⟩])
  else .ok names

/-- no usable earlier name (`off == NULL`): all labels and the terminating zero -/
def nameWriteFull (pos : Nat) (names : List NameOff) (useList validate : Bool) (name : BStr) :
    Except WErr NameOut :=
  match splitDnsName validate name true with
  | .error e => .error e
  | .ok ls =>
    if useList then
      match remember pos names name name.length ls with
      | .error e => .error e
      | .ok names' => .ok ⟨encodeLabels ls ++ [0], names', false⟩
    else .ok ⟨encodeLabels ls ++ [0], names, false⟩

/-- the whole name was written before (`off->name_len == orig_name_len`): just the pointer -/
def nameWriteExact (names : List NameOff) (o : NameOff) : NameOut :=
  ⟨(ptrBytes o).1, names, (ptrBytes o).2⟩

/-- a proper tail was written before: the labels in front of it (text cut before the dot), then the
    pointer -/
def nameWriteTail (pos : Nat) (names : List NameOff) (validate : Bool) (name : BStr) (o : NameOff) :
    Except WErr NameOut :=
  let nameLen := name.length - (o.name.length + 1)
  match splitDnsName validate (name.take nameLen) false with
  | .error e => .error e
  | .ok ls =>
    match remember pos names name nameLen ls with
    | .error e => .error e
    | .ok names' => .ok ⟨encodeLabels ls ++ (ptrBytes o).1, names', (ptrBytes o).2⟩

/-- `ares_dns_name_write(buf, list, validate_hostname, name)` with `pos = ares_buf_len(buf)`.
    `useList = false` models `list == NULL` (RDATA names of types that must not be compressed).
    A name that does not fit into `char name_copy[512]` is refused, so `name_copy` is `name`. -/
def nameWrite (pos : Nat) (names : List NameOff) (useList : Bool) (validate : Bool) (name : BStr) :
    Except WErr NameOut :=
  if name.length ≥ nameCopySize then .error .badname else
  match (if useList then findOff names name else none) with
  | none => nameWriteFull pos names useList validate name
  | some o =>
    if o.name.length = name.length then .ok (nameWriteExact names o)
    else nameWriteTail pos names validate name o

/-! ## presentation text produced by the parser (`ares_fetch_dnsname_into_buf`) -/

def digit (n : Nat) : UInt8 := UInt8.ofNat (48 + n)

def escapeByte (c : UInt8) : BStr :=
  if !isPrint c then [backslash, digit (c.toNat / 100), digit (c.toNat % 100 / 10), digit (c.toNat % 10)]
  else if isReservedCh c then [backslash, c]
  else [c]

def escapeLabel (l : BStr) : BStr := (l.map escapeByte).flatten

/-- labels joined by `.` (the parser adds the dot only between labels; the root is the empty text) -/
def escapeName : List BStr → BStr
  | [] => []
  | [l] => escapeLabel l
  | l :: rest => escapeLabel l ++ dot :: escapeName rest

/-- the spelling the parser prints for the name a text denotes (the text itself when it denotes none) -/
def canonName (n : BStr) : BStr :=
  match unescape n with
  | .ok ls => escapeName ls
  | .error _ => n

/-! ## what a name at an offset of a message denotes -/

/-- pointer offset carried by the two bytes `c d` (`c >= 0xC0`) -/
def ptrOff (c d : UInt8) : Nat := (c.toNat % 64) * 256 + d.toNat

/-- `Decodes msg lo pos ls e`: reading at `pos` yields the labels `ls`; every pointer goes strictly
    below `lo`, the lowest position at which this name has been read so far (the parser's
    `label_start`); `e` is where reading continues after the name: behind the terminating zero, or behind
    the first pointer. -/
inductive Decodes (msg : BStr) : Nat → Nat → List BStr → Nat → Prop where
  | root {lo pos : Nat} : msg[pos]? = some 0 → Decodes msg lo pos [] (pos + 1)
  | label {lo pos e : Nat} {c : UInt8} {lab : BStr} {rest : List BStr} :
      msg[pos]? = some c → 0 < c.toNat → c.toNat < 64 →
      lab = (msg.drop (pos + 1)).take c.toNat → lab.length = c.toNat →
      Decodes msg lo (pos + 1 + c.toNat) rest e → Decodes msg lo pos (lab :: rest) e
  | ptr {lo pos e' : Nat} {c d : UInt8} {ls : List BStr} :
      msg[pos]? = some c → 192 ≤ c.toNat → msg[pos + 1]? = some d →
      ptrOff c d < lo → Decodes msg (ptrOff c d) (ptrOff c d) ls e' → Decodes msg lo pos ls (pos + 2)

/-- computable version (fuel = number of steps allowed) -/
def decodeAt : Nat → BStr → Nat → Nat → Option (List BStr)
  | 0, _, _, _ => none
  | fuel + 1, msg, lo, pos =>
    match msg[pos]? with
    | none => none
    | some c =>
      if c.toNat = 0 then some []
      else if 192 ≤ c.toNat then
        match msg[pos + 1]? with
        | none => none
        | some d => if ptrOff c d < lo then decodeAt fuel msg (ptrOff c d) (ptrOff c d) else none
      else if 64 ≤ c.toNat then none
      else
        let lab := (msg.drop (pos + 1)).take c.toNat
        if lab.length = c.toNat then (decodeAt fuel msg lo (pos + 1 + c.toNat)).map (lab :: ·) else none

end Cares.Dns.NameW
