import CaresModel.Dns.Rec
import CaresModel.Dns.Script
import CaresModel.Dns.NameWrite
import CaresModel.Dns.Build
import CaresModel.Generated.RRScripts
/-!
# The DNS message writer (`src/lib/record/ares_dns_write.c`)

`ares_dns_write_buf` appends to a buffer and reads back only its length, so every piece of the model
takes the current buffer length `pos` and returns the bytes it appends; the RDLENGTH / OPT / RAW_RR
back-patches (`ares_buf_set_length` + re-append) become "compute the patched bytes first".

This is the writer of the tree with the three C03 repairs (DESIGN.md §8):
* F5: positions recorded for name compression are relative to the start of the message, wherever the
  message is placed in the output buffer (`ares_dns_write_buf` hides what the buffer already holds);
* F6: a name starting beyond offset 0x3FFF is not remembered (`nameWrite`);
* F7: a message longer than 65535 bytes is refused (`ARES_EBADQUERY`).
The C casts / masks (`(unsigned short)`, `& 0xFFFF`, `& 0x3FFF`) are still modelled and set the `trunc`
flag of the result; the theorems show the flag is never set on a successful write of a built or parsed
record.
-/
namespace Cares.Dns.Write
open Cares.Dns Cares.Dns.NameW Cares.Dns.Build

/-- bytes appended, name-offset list afterwards, "some field lost bits" -/
structure Piece where
  bytes : BStr
  names : List NameOff
  trunc : Bool
  deriving DecidableEq, Repr, Inhabited

/-- `(unsigned short)n` with the flag -/
def u16t (n : Nat) : BStr × Bool := (be16 (n % 65536), decide (n ≥ 65536))

/-! ## field getters as the writer uses them (wrong datatype / missing = 0 / NULL) -/

def getU (rr : RR) (key : Nat) : Nat :=
  match rr.get? key with
  | some (.u8 n) => n | some (.u16 n) => n | some (.u32 n) => n | _ => 0

def getStr (rr : RR) (key : Nat) : Option BStr :=
  match rr.get? key with
  | some (.name s) => s | some (.str s) => s | _ => none

def getBin (rr : RR) (key : Nat) : Option BStr :=
  match rr.get? key with
  | some (.bin b) => b | _ => none

def getAddr (rr : RR) (key : Nat) : Option BStr :=
  match rr.get? key with
  | some (.addr b) => some b | some (.addr6 b) => some b | _ => none

/-! ## field helpers -/

/-- `ares_dns_write_binstr`: one or more character-strings of at most 255 bytes (`do … while`) -/
def binstr (bs : BStr) : BStr :=
  if _h : bs.length ≤ 255 then UInt8.ofNat bs.length :: bs
  else (255 : UInt8) :: bs.take 255 ++ binstr (bs.drop 255)
termination_by bs.length
decreasing_by simp only [List.length_drop]; omega

/-- the character-strings `binstr` produces, as a list (what the parser reports for the chunk) -/
def split255 (bs : BStr) : List BStr :=
  if _h : bs.length ≤ 255 then [bs] else bs.take 255 :: split255 (bs.drop 255)
termination_by bs.length
decreasing_by simp only [List.length_drop]; omega

/-- the `(be16 id, be16 len & 0xFFFF, value)` loop shared by OPT, SVCB and HTTPS -/
def writeOpts : List (Nat × BStr) → BStr × Bool
  | [] => ([], false)
  | (id, v) :: rest =>
    let (lb, lt) := u16t v.length
    let (rb, rt) := writeOpts rest
    (be16 (id % 65536) ++ lb ++ v ++ rb, lt || rt)

/-- one field helper call.  `comp` = this RR type may use the name list inside RDATA
    (`namelistptr != NULL`). -/
def writeField (pos : Nat) (names : List NameOff) (comp : Bool) (rr : RR) (kind : FieldKind) (key : Nat) :
    Except WErr Piece :=
  match kind with
  | .be16 => if keyDatatype key = some .u16 then .ok ⟨be16 (getU rr key % 65536), names, false⟩ else .error .formerr
  | .be32 => if keyDatatype key = some .u32 then .ok ⟨be32 (getU rr key % 4294967296), names, false⟩ else .error .formerr
  | .u8 => if keyDatatype key = some .u8 then .ok ⟨[UInt8.ofNat (getU rr key % 256)], names, false⟩ else .error .formerr
  | .name validate =>
    match getStr rr key with
    | none => .error .formerr
    | some n =>
      match nameWrite pos names comp validate n with
      | .error e => .error e
      | .ok o => .ok ⟨o.bytes, o.names, o.trunc⟩
  | .str _ =>
    match getStr rr key with
    | none => .error .formerr
    | some s => if s.length > 255 then .error .formerr else .ok ⟨UInt8.ofNat s.length :: s, names, false⟩
  | .addr4 => match getAddr rr key with | some b => .ok ⟨b, names, false⟩ | none => .error .formerr
  | .addr6 => match getAddr rr key with | some b => .ok ⟨b, names, false⟩ | none => .error .formerr
  | .abin _ =>
    let chunks := getAbin rr key
    if chunks.length = 0 then .error .formerr else .ok ⟨(chunks.map binstr).flatten, names, false⟩
  | .binRest =>
    match getBin rr key with
    | none => .error .formerr
    | some b => if b.length = 0 then .error .formerr else .ok ⟨b, names, false⟩
  | .strRest =>
    match getStr rr key with
    | none => .error .formerr
    | some s => if s.length = 0 then .error .formerr else .ok ⟨s, names, false⟩
  | .opts => let (b, t) := writeOpts (getOpts rr key); .ok ⟨b, names, t⟩

/-- a whole script, left to right -/
def writeFields (pos : Nat) (names : List NameOff) (comp : Bool) (rr : RR) : Script → Except WErr Piece
  | [] => .ok ⟨[], names, false⟩
  | (kind, key) :: rest =>
    match writeField pos names comp rr kind key with
    | .error e => .error e
    | .ok p =>
      match writeFields (pos + p.bytes.length) p.names comp rr rest with
      | .error e => .error e
      | .ok q => .ok ⟨p.bytes ++ q.bytes, q.names, p.trunc || q.trunc⟩

/-! ## one RR (`ares_dns_write_rr`, loop body) -/

/-- RDATA of a scripted type, OPT options or RAW data.  `rcode` is the parent record's. -/
def writeRData (pos : Nat) (names : List NameOff) (rr : RR) : Except WErr Piece :=
  let comp := allowNameComp rr.type
  if rr.type = RecType.any then .error .formerr
  else if rr.type = RecType.opt then
    let (b, t) := writeOpts (getOpts rr Key.optOptions); .ok ⟨b, names, t⟩
  else if rr.type = RecType.rawRR then
    match getBin rr Key.rawRRData with
    | none => .error .formerr
    | some d => .ok ⟨d, names, false⟩
  else
    match scriptOf Generated.writeScript rr.type with
    | some sc => writeFields pos names comp rr sc
    | none => .ok ⟨[], names, false⟩      -- no `case` in the switch: status stays ARES_SUCCESS

/-- TYPE / CLASS / TTL as they end up on the wire (OPT and RAW_RR overwrite what the loop wrote) -/
def rrFixed (rcode ttlDec : Nat) (rr : RR) : BStr × Bool :=
  if rr.type = RecType.opt then
    let ttl := ((rcode / 16) % 256) * 16777216 + (getU rr Key.optVersion % 256) * 65536 + getU rr Key.optFlags % 65536
    (be16 (rr.type % 65536) ++ be16 (getU rr Key.optUdpSize % 65536) ++ be32 ttl, false)
  else
    let ttl := if ttlDec > rr.ttl then 0 else rr.ttl - ttlDec
    let ty := if rr.type = RecType.rawRR then getU rr Key.rawRRType else rr.type
    (be16 (ty % 65536) ++ be16 (rr.cls % 65536) ++ be32 (ttl % 4294967296),
      decide (ty ≥ 65536) || decide (rr.cls ≥ 65536))

def writeRR (rcode ttlDec : Nat) (pos : Nat) (names : List NameOff) (rr : RR) : Except WErr Piece :=
  -- owner name: always with the list (`namelist`, not `namelistptr`), host-name characters only
  match nameWrite pos names true true rr.name with
  | .error e => .error e
  | .ok n =>
    let (fixed, ft) := rrFixed rcode ttlDec rr
    match writeRData (pos + n.bytes.length + 10) n.names rr with
    | .error e => .error e
    | .ok d =>
      let (len, lt) := u16t d.bytes.length
      .ok ⟨n.bytes ++ fixed ++ len ++ d.bytes, d.names, n.trunc || ft || lt || d.trunc⟩

def writeRRs (rcode ttlDec : Nat) (pos : Nat) (names : List NameOff) : List RR → Except WErr Piece
  | [] => .ok ⟨[], names, false⟩
  | rr :: rest =>
    match writeRR rcode ttlDec pos names rr with
    | .error e => .error e
    | .ok p =>
      match writeRRs rcode ttlDec (pos + p.bytes.length) p.names rest with
      | .error e => .error e
      | .ok q => .ok ⟨p.bytes ++ q.bytes, q.names, p.trunc || q.trunc⟩

/-! ## header and questions -/

/-- `ares_dns_get_opt_rr_const(rec) != NULL` -/
def hasOpt (r : Rec) : Bool := r.ar.any (·.type = RecType.opt)

def flagWord (r : Rec) : Nat :=
  (if r.hasFlag Flag.qr then 0x8000 else 0) + (r.opcode % 16) * 2048 +
  (if r.hasFlag Flag.aa then 0x400 else 0) + (if r.hasFlag Flag.tc then 0x200 else 0) +
  (if r.hasFlag Flag.rd then 0x100 else 0) + (if r.hasFlag Flag.ra then 0x80 else 0) +
  (if r.hasFlag Flag.ad then 0x20 else 0) + (if r.hasFlag Flag.cd then 0x10 else 0) +
  (if r.rcode > 15 && !hasOpt r then 2 else r.rcode % 16)

def writeHeader (r : Rec) : BStr × Bool :=
  let (q, qt) := u16t r.qd.length
  let (a, at') := u16t r.an.length
  let (n, nt) := u16t r.ns.length
  let (x, xt) := u16t r.ar.length
  (be16 (r.id % 65536) ++ be16 (flagWord r) ++ q ++ a ++ n ++ x, qt || at' || nt || xt)

def writeQuestions (pos : Nat) (names : List NameOff) : List Question → Except WErr Piece
  | [] => .ok ⟨[], names, false⟩
  | q :: rest =>
    match nameWrite pos names true true q.name with
    | .error e => .error e
    | .ok n =>
      let (ty, tt) := u16t q.qtype
      let (cl, ct) := u16t q.qclass
      let bytes := n.bytes ++ ty ++ cl
      match writeQuestions (pos + bytes.length) n.names rest with
      | .error e => .error e
      | .ok p => .ok ⟨bytes ++ p.bytes, p.names, n.trunc || tt || ct || p.trunc⟩

/-! ## whole messages -/

/-- the message `ares_dns_write_buf` appends, before the size check, with the truncation flag -/
def writeSections (ttlDec : Nat) (r : Rec) : Except WErr (BStr × Bool) :=
  let (h, ht) := writeHeader r
  match writeQuestions h.length [] r.qd with
  | .error e => .error e
  | .ok q =>
    match writeRRs r.rcode ttlDec (h.length + q.bytes.length) q.names r.an with
    | .error e => .error e
    | .ok a =>
      match writeRRs r.rcode ttlDec (h.length + q.bytes.length + a.bytes.length) a.names r.ns with
      | .error e => .error e
      | .ok n =>
        match writeRRs r.rcode ttlDec (h.length + q.bytes.length + a.bytes.length + n.bytes.length)
            n.names r.ar with
        | .error e => .error e
        | .ok x => .ok (h ++ q.bytes ++ a.bytes ++ n.bytes ++ x.bytes, ht || q.trunc || a.trunc || n.trunc || x.trunc)

/-- `ares_dns_write_buf`: the appended message (positions are message-relative whatever the buffer
    already holds; on failure the buffer is restored, so nothing else is observable) -/
def writeMsg (ttlDec : Nat) (r : Rec) : Except WErr (BStr × Bool) :=
  match writeSections ttlDec r with
  | .error e => .error e
  | .ok (msg, t) => if msg.length > 65535 then .error .badquery else .ok (msg, t)

/-- `ares_dns_write` -/
def write (r : Rec) (ttlDec : Nat := 0) : Except WErr BStr := (writeMsg ttlDec r).map (·.1)

/-- `ares_dns_write_buf_tcp` into a buffer whose unsent content is `queued`: the appended frame -/
def writeTcpFrame (_queued : BStr) (r : Rec) (ttlDec : Nat := 0) : Except WErr BStr :=
  match writeMsg ttlDec r with
  | .error e => .error e
  | .ok (msg, _) => if msg.length > 65535 then .error .badquery else .ok (be16 msg.length ++ msg)

/-- the whole output buffer after `ares_dns_write_buf_tcp` -/
def writeBufTcp (queued : BStr) (r : Rec) (ttlDec : Nat := 0) : Except WErr BStr :=
  (writeTcpFrame queued r ttlDec).map (queued ++ ·)

/-- `ares_create_query` / `ares_mkquery` (`udp = 0`) -/
def legacyCreateQuery (name : BStr) (cls type id : Nat) (rd : Bool) (udp : Nat) : Except WErr BStr :=
  match createQuery name cls type id (if rd then Flag.rd else 0) udp with
  | .error e => .error e
  | .ok r => write r

/-! ## what the parser reports for a written record (`canon`) and when a script pair is a codec pair

These definitions are specification vocabulary for `CaresProps/C03.lean`; the driver does not use them. -/

/-- the value the parser stores for a field written by helper `kind` -/
def canonVal (rr : RR) (kind : FieldKind) (key : Nat) : Val :=
  match kind with
  | .be16 => .u16 (getU rr key)
  | .be32 => .u32 (getU rr key)
  | .u8 => .u8 (getU rr key)
  | .name _ => .name ((getStr rr key).map canonName)
  | .str _ => .str (getStr rr key)
  | .addr4 => .addr ((getAddr rr key).getD [])
  | .addr6 => .addr6 ((getAddr rr key).getD [])
  | .abin _ => .abin ((getAbin rr key).flatMap split255)
  | .binRest => .bin (getBin rr key)
  | .strRest => .name (getStr rr key)
  | .opts => .opt (getOpts rr key)

def canonFields (rr : RR) (sc : Script) : List (Nat × Val) := sc.map fun p => (p.2, canonVal rr p.1 p.2)

def allPrintable (s : BStr) : Bool := s.all fun c => 0x20 ≤ c.toNat && c.toNat ≤ 0x7E

/-- "rest of RDATA" kinds: they read up to RDLENGTH, so nothing may follow them -/
def isRest : FieldKind → Bool
  | .binRest | .strRest | .opts => true
  | _ => false

/-- parse-side helper `pk` decodes what write-side helper `wk` encodes (TXT's `abin` is handled apart:
    it counts from its own start, so it must be the whole RDATA) -/
def kindMatch : FieldKind → FieldKind → Bool
  | .be16, .be16 | .be32, .be32 | .u8, .u8 | .addr4, .addr4 | .addr6, .addr6 => true
  | .name false, .name _ => true
  | .str _, .str _ => true
  | .binRest, .binRest | .strRest, .strRest | .opts, .opts => true
  | _, _ => false

def compatibleSeq : Script → Script → Bool
  | [], [] => true
  | (pk, pkey) :: ps, (wk, wkey) :: ws =>
    pkey == wkey && kindMatch pk wk && (!isRest pk || ps.isEmpty) && compatibleSeq ps ws
  | _, _ => false

/-- decidable "these two scripts are a codec pair" -/
def compatible (ps ws : Script) : Bool :=
  compatibleSeq ps ws ||
    (match ps, ws with
     | [(.abin false, pk)], [(.abin _, wk)] => pk == wk
     | _, _ => false)

/-- every type's parse script is compatible with its write script -/
def scriptsCompatible (ptbl wtbl : List (Nat × Script)) : Bool :=
  ptbl.length == wtbl.length &&
    (ptbl.zip wtbl).all fun pw => pw.1.1 == pw.2.1 && compatible pw.1.2 pw.2.2

/-- value constraints under which the parse-side helper accepts what the write-side helper emitted
    (ranges the typed setters enforce; printable text where the parser insists on it) -/
def fieldOk (rr : RR) (pk : FieldKind) (key : Nat) : Bool :=
  match pk with
  | .be16 => getU rr key < 65536
  | .be32 => getU rr key < 4294967296
  | .u8 => getU rr key < 256
  | .name _ => true
  | .str blank =>
    (match getStr rr key with | some s => allPrintable s && (blank || !s.isEmpty) | none => true)
  | .addr4 => (match getAddr rr key with | some b => b.length == 4 | none => true)
  | .addr6 => (match getAddr rr key with | some b => b.length == 16 | none => true)
  | .abin _ => true
  | .binRest => true
  | .strRest => (match getStr rr key with | some s => allPrintable s | none => true)
  | .opts =>
    (getOpts rr key).all (fun p => p.1 < 65536 && p.2.length < 65536) &&
      decide (((getOpts rr key).map (·.1)).Nodup)

def fieldsOk (rr : RR) (ps : Script) : Bool := ps.all fun p => fieldOk rr p.1 p.2

/-! ### canonical form of a record = what the parser reports for its serialisation -/

def canonRR (rr : RR) : RR :=
  { rr with
    name := canonName rr.name
    fields := match scriptOf Generated.writeScript rr.type with
      | some ws => canonFields rr ws
      | none => rr.fields }

def canonQ (q : Question) : Question := { q with name := canonName q.name }

/-- names in the parser's spelling, TXT chunks cut to at most 255 bytes; everything else untouched -/
def canon (r : Rec) : Rec :=
  { r with qd := r.qd.map canonQ, an := r.an.map canonRR, ns := r.ns.map canonRR, ar := r.ar.map canonRR }

/-- field-by-field equality up to the spelling of names and the chunking of TXT data -/
def RecEquiv (a b : Rec) : Prop := canon a = canon b

/-! ### the records the round-trip claim is about

`rrOk` / `recOk` spell out, as decidable checks, (a) what the typed setters of the public API guarantee
(field lists complete and typed, values in range) and (b) the guards that exclude the input classes on which
the literal property is false on this tree (findings F33–F37 of `findings/`, each with a kernel-checked
counterexample in `CaresProps/C03.lean`). -/

def optFieldsStd (rr : RR) : List (Nat × Val) :=
  [(Key.optUdpSize, .u16 (getU rr Key.optUdpSize)), (Key.optVersion, .u8 (getU rr Key.optVersion)),
   (Key.optFlags, .u16 (getU rr Key.optFlags)), (Key.optOptions, .opt (getOpts rr Key.optOptions))]

def rawFieldsStd (rr : RR) : List (Nat × Val) :=
  [(Key.rawRRType, .u16 (getU rr Key.rawRRType)), (Key.rawRRData, .bin (getBin rr Key.rawRRData))]

def rrOk (rr : RR) : Bool :=
  recTypeValid rr.type false && classValid rr.cls rr.type false && rr.cls < 65536 && rr.ttl < 4294967296 &&
  (if rr.type = RecType.opt then
     -- F35: class and TTL of an OPT RR are not representable
     rr.cls = Class.in && rr.ttl = 0 && rr.fields == optFieldsStd rr &&
       getU rr Key.optUdpSize < 65536 && getU rr Key.optVersion < 256 && getU rr Key.optFlags < 65536 &&
       fieldOk rr .opts Key.optOptions
   else if rr.type = RecType.rawRR then
     -- F36: a RAW_RR must carry a type the parser does not decode
     rr.fields == rawFieldsStd rr && getU rr Key.rawRRType < 65536 &&
       !recTypeValid (getU rr Key.rawRRType) false
   else
     -- typed values in range; F37: character-strings the parser accepts
     match scriptOf Generated.parseScript rr.type with
     | some ps => fieldsOk rr ps
     | none => false)

def recOk (r : Rec) : Bool :=
  -- `unsigned short id, flags`
  r.id < 65536 && r.flags < 65536 && flagsValid r.flags && opcodeValid r.opcode && rcodeValid r.rcode &&
  -- F33: exactly one question
  r.qd.length = 1 &&
  r.qd.all (fun q => recTypeValid q.qtype true && classValid q.qclass q.qtype true) &&
  -- F34: an extended rcode needs an OPT RR in the additional section
  (r.rcode ≤ 15 || hasOpt r) &&
  r.an.all rrOk && r.ns.all rrOk && r.ar.all rrOk

end Cares.Dns.Write
