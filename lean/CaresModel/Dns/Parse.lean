import CaresModel.Dns.Name
import CaresModel.Dns.Script
import CaresModel.Generated.RRScripts
/-!
# `ares_dns_parse` (`src/lib/record/ares_dns_parse.c`, `ares_dns_multistring.c`, the setters'
validity checks of `ares_dns_record.c` as the parser uses them)

The model follows the C control flow: header, exactly one question, the three RR sections, RDLENGTH
reconciliation, parse flags → RAW_RR rule, OPT reinterpretation, final rcode.  The per-type RDATA
decoders are ONE interpreter (`parseFields`) over the field scripts that `tools/gen_rrscripts.py`
extracts from the clang AST of `ares_dns_parse_rr_<type>` (`Generated.parseScript`); OPT and RAW_RR
are modelled by hand.  All loops are total without fuel (measure: bytes left in the buffer).
Allocation always succeeds here (failure schedules belong to C14).
-/
namespace Cares.Dns
open Cares.Generated

/-- result of a whole API call -/
inductive Outcome (α : Type) where
  | ok (r : α)
  | err (e : Status)
  | fault (k : FaultKind)
  deriving Repr, Inhabited, DecidableEq

/-! ## small reader helpers -/

theorem fetchBe16_ok {bs : Bytes} {pos pos1 v : Nat} (h : fetchBe16 bs pos = .ok v pos1) :
    pos1 = pos + 2 ∧ pos + 2 ≤ bs.size := by
  by_cases hle : pos ≤ bs.size
  · rw [fetchBe16_eq hle] at h
    split at h
    · injection h with h1 h2; omega
    · simp at h
  · unfold fetchBe16 at h
    have : bufLen bs pos = .fault .underflow := by simp [bufLen, subChecked, hle]
    rw [P.bind_fault this] at h
    simp at h

/-- `ares_dns_rr_remaining_len(buf, orig_len, rdlength)` -/
def rrRemainingLen (bs : Bytes) (origLen rdlength : Nat) : P Nat := do
  let bl ← bufLen bs
  let used ← subChecked origLen bl
  if used ≥ rdlength then pure 0 else pure (rdlength - used)

/-- `ares_buf_fetch_str_dup` -/
def fetchStrDup (bs : Bytes) (len : Nat) : P BStr := do
  let rem ← bufLen bs
  if len = 0 ∨ rem < len then P.fail .ebadresp
  else
    let data ← rawSlice bs len
    if !(data.all fun c => isPrint c.toNat) then P.fail .ebadstr
    else
      consume bs len
      pure data

/-- `ares_buf_parse_dns_binstr_int(buf, remaining_len, &bin, &len, validate_printable)` -/
def parseDnsBinstr (bs : Bytes) (remainingLen : Nat) (validatePrintable : Bool) : P BStr := do
  if remainingLen = 0 then P.fail .ebadresp
  else
    let len ← fetchByte bs
    if len.toNat > remainingLen - 1 then P.fail .ebadresp
    else if len.toNat ≠ 0 then
      let bl ← bufLen bs
      if validatePrintable ∧ bl ≥ len.toNat then
        let data ← rawSlice bs len.toNat
        if !(data.all fun c => isPrint c.toNat) then P.fail .ebadstr
        else fetchBytes bs len.toNat
      else fetchBytes bs len.toNat
    else pure []

/-! ## `ares_dns_multistring_parse_buf` (TXT) -/

/-- one iteration of the `while` body: length byte, optional printable check, the string -/
def multistringStep (bs : Bytes) (validatePrintable : Bool) : P BStr := do
  let len ← fetchByte bs
  let bl ← bufLen bs
  if len.toNat ≠ 0 ∧ validatePrintable ∧ bl ≥ len.toNat then
    let data ← rawSlice bs len.toNat
    if !(data.all fun c => isPrint c.toNat) then P.fail .ebadstr
    else fetchBytes bs len.toNat
  else if len.toNat ≠ 0 then fetchBytes bs len.toNat
  else pure []

theorem multistringStep_ok {bs : Bytes} {v : Bool} {pos pos1 : Nat} {s : BStr}
    (h : multistringStep bs v pos = .ok s pos1) : pos < pos1 ∧ pos1 ≤ bs.size := by
  unfold multistringStep at h
  cases hb : fetchByte bs pos with
  | err e => rw [P.bind_err hb] at h; simp at h
  | fault k => rw [P.bind_fault hb] at h; simp at h
  | ok c p1 =>
    obtain ⟨hp1, hle1⟩ := fetchByte_ok hb
    subst hp1
    rw [P.bind_ok hb, P.bind_ok (bufLen_eq hle1)] at h
    have hfb : ∀ {q : Nat} {r : BStr}, fetchBytes bs c.toNat (pos + 1) = .ok r q →
        q = pos + 1 + c.toNat ∧ q ≤ bs.size := by
      intro q r hq
      rw [fetchBytes_eq hle1] at hq
      split at hq
      · injection hq with _ h2; omega
      · simp at hq
    split at h
    · rename_i hc
      rw [P.bind_ok (rawSlice_eq (by omega))] at h
      split at h
      · simp at h
      · have := hfb h; omega
    · split at h
      · have := hfb h; omega
      · simp only [P.pure_apply] at h
        injection h with _ h2; omega

/-- the `while (orig_len - ares_buf_len(buf) < remaining_len)` loop; `ran` = the body ran at least
    once (the initial `status` is EBADRESP) -/
def multistringLoop (bs : Bytes) (origLen remainingLen : Nat) (validatePrintable : Bool)
    (acc : List BStr) (ran : Bool) (pos : Nat) : Res (List BStr) :=
  match (bufLen bs >>= subChecked origLen) pos with
  | .err e => .err e
  | .fault k => .fault k
  | .ok used _ =>
    if used < remainingLen then
      match h : multistringStep bs validatePrintable pos with
      | .err e => .err e
      | .fault k => .fault k
      | .ok s pos1 => multistringLoop bs origLen remainingLen validatePrintable (acc ++ [s]) true pos1
    else if ran then .ok acc pos else .err .ebadresp
termination_by bs.size - pos
decreasing_by
  have := multistringStep_ok h
  omega

/-- `ares_dns_multistring_parse_buf(buf, remaining_len, &strs, validate_printable)` -/
def parseMultistring (bs : Bytes) (remainingLen : Nat) (validatePrintable : Bool) : P (List BStr) := do
  let origLen ← bufLen bs
  if remainingLen = 0 then P.fail .ebadresp
  else multistringLoop bs origLen remainingLen validatePrintable [] false

/-! ## option lists (OPT, SVCB, HTTPS) -/

/-- `ares_dns_rr_set_opt_own`: a duplicate id replaces the stored value in place -/
def setOpt : List (Nat × BStr) → Nat → BStr → List (Nat × BStr)
  | [], id, v => [(id, v)]
  | (i, w) :: rest, id, v => if i = id then (id, v) :: rest else (i, w) :: setOpt rest id v

/-- one `(be16 id, be16 len, value)` triple -/
def optStep (bs : Bytes) : P (Nat × BStr) := do
  let opt ← fetchBe16 bs
  let len ← fetchBe16 bs
  if len ≠ 0 then
    let v ← fetchBytes bs len
    pure (opt, v)
  else pure (opt, [])

theorem optStep_ok {bs : Bytes} {pos pos1 : Nat} {o : Nat × BStr}
    (h : optStep bs pos = .ok o pos1) : pos < pos1 ∧ pos1 ≤ bs.size := by
  unfold optStep at h
  cases h1 : fetchBe16 bs pos with
  | err e => rw [P.bind_err h1] at h; simp at h
  | fault k => rw [P.bind_fault h1] at h; simp at h
  | ok a p1 =>
    obtain ⟨e1, l1⟩ := fetchBe16_ok h1
    subst e1
    rw [P.bind_ok h1] at h
    cases h2 : fetchBe16 bs (pos + 2) with
    | err e => rw [P.bind_err h2] at h; simp at h
    | fault k => rw [P.bind_fault h2] at h; simp at h
    | ok b p2 =>
      obtain ⟨e2, l2⟩ := fetchBe16_ok h2
      subst e2
      rw [P.bind_ok h2] at h
      split at h
      · cases h3 : fetchBytes bs b (pos + 2 + 2) with
        | err e => rw [P.bind_err h3] at h; simp at h
        | fault k => rw [P.bind_fault h3] at h; simp at h
        | ok v p3 =>
          rw [P.bind_ok h3] at h
          rw [fetchBytes_eq l2] at h3
          split at h3
          · injection h3 with _ h3b
            simp only [P.pure_apply] at h
            injection h with _ h4; omega
          · simp at h3
      · simp only [P.pure_apply] at h
        injection h with _ h4; omega

/-- `while (ares_dns_rr_remaining_len(buf, orig_len, rdlength)) { … }` -/
def optLoop (bs : Bytes) (origLen rdlength : Nat) (acc : List (Nat × BStr)) (pos : Nat) :
    Res (List (Nat × BStr)) :=
  match rrRemainingLen bs origLen rdlength pos with
  | .err e => .err e
  | .fault k => .fault k
  | .ok rem _ =>
    if rem ≠ 0 then
      match h : optStep bs pos with
      | .err e => .err e
      | .fault k => .fault k
      | .ok o pos1 => optLoop bs origLen rdlength (setOpt acc o.1 o.2) pos1
    else .ok acc pos
termination_by bs.size - pos
decreasing_by
  have := optStep_ok h
  omega

/-! ## field scripts -/

/-- the parse-side meaning of one script element (`ares_dns_parse_and_set_*`, the "rest of RDATA"
    fetches, the string-array and option loops).  `origLen` is `ares_buf_len` at RDATA start. -/
def parseField (bs : Bytes) (origLen rdlength : Nat) : FieldKind → P Val
  | .be16 => do let v ← fetchBe16 bs; pure (.u16 v)
  | .be32 => do let v ← fetchBe32 bs; pure (.u32 v)
  | .u8 => do let v ← fetchByte bs; pure (.u8 v.toNat)
  | .name isHost => do let n ← parseName bs isHost; pure (.name (some n))
  | .str blankAllowed => do
      let rem ← rrRemainingLen bs origLen rdlength
      let s ← parseDnsBinstr bs rem true
      if !blankAllowed ∧ s.length = 0 then P.fail .ebadresp else pure (.str (some s))
  | .addr4 => do let b ← fetchBytes bs 4; pure (.addr b)
  | .addr6 => do let b ← fetchBytes bs 16; pure (.addr6 b)
  | .abin validatePrintable => do
      let l ← parseMultistring bs rdlength validatePrintable
      pure (.abin l)
  | .binRest => do
      let len ← rrRemainingLen bs origLen rdlength
      if len = 0 then P.fail .ebadresp
      else
        let b ← fetchBytes bs len
        pure (.bin (some b))
  | .strRest => do
      let len ← rrRemainingLen bs origLen rdlength
      if len = 0 then P.fail .ebadresp
      else
        let s ← fetchStrDup bs len
        pure (.name (some s))
  | .opts => do
      let l ← optLoop bs origLen rdlength []
      pure (.opt l)

/-- run a script: the straight-line body of `ares_dns_parse_rr_<type>` -/
def parseFields (bs : Bytes) (origLen rdlength : Nat) : Script → P (List (Nat × Val))
  | [] => pure []
  | (kind, key) :: rest => do
      let v ← parseField bs origLen rdlength kind
      let vs ← parseFields bs origLen rdlength rest
      pure ((key, v) :: vs)

/-- `ares_dns_parse_rr_opt`: fields and the bits it ORs into `raw_rcode` -/
def parseRROpt (bs : Bytes) (rdlength rawClass rawTtl : Nat) : P (List (Nat × Val) × Nat) := do
  let origLen ← bufLen bs
  let opts ← optLoop bs origLen rdlength []
  pure ([(Key.optUdpSize, .u16 rawClass), (Key.optVersion, .u8 ((rawTtl >>> 16) &&& 0xFF)),
         (Key.optFlags, .u16 (rawTtl &&& 0xFFFF)), (Key.optOptions, .opt opts)],
        (rawTtl >>> 20) &&& 0x0FF0)

/-- `ares_dns_parse_rr_raw_rr`.  Finding F8: the pinned tree returned before storing the type when
    RDLENGTH was 0 (reported type 0, NULL value, record not serialisable); repaired by the `fix:`
    commit "RR of an undecoded type with empty RDATA ...": the type and an empty non-NULL value
    are stored. -/
def parseRRRaw (bs : Bytes) (rdlength rawType : Nat) : P (List (Nat × Val)) :=
  if rdlength = 0 then pure [(Key.rawRRType, .u16 rawType), (Key.rawRRData, .bin (some []))]
  else do
    let b ← fetchBytes bs rdlength
    pure [(Key.rawRRType, .u16 rawType), (Key.rawRRData, .bin (some b))]

/-- `ares_dns_parse_rr_data` -/
def parseRRData (bs : Bytes) (rdlength type rawType rawClass rawTtl : Nat) :
    P (List (Nat × Val) × Nat) :=
  if type = RecType.any then P.fail .ebadresp
  else if type = RecType.opt then parseRROpt bs rdlength rawClass rawTtl
  else if type = RecType.rawRR then do
    let f ← parseRRRaw bs rdlength rawType
    pure (f, 0)
  else
    match scriptOf parseScript type with
    | none => P.fail .eformerr
    | some script => do
      let origLen ← bufLen bs
      let f ← parseFields bs origLen rdlength script
      pure (f, 0)

/-! ## parse flags -/
namespace ParseFlag
def anBaseRaw : Nat := 1
def nsBaseRaw : Nat := 2
def arBaseRaw : Nat := 4
def anExtRaw : Nat := 8
def nsExtRaw : Nat := 16
def arExtRaw : Nat := 32
end ParseFlag

/-- the flag that turns an RR of this section into RAW_RR -/
def rawFlagFor (sect : Sect) (namecomp : Bool) : Nat :=
  match sect, namecomp with
  | .answer, true => ParseFlag.anBaseRaw | .answer, false => ParseFlag.anExtRaw
  | .authority, true => ParseFlag.nsBaseRaw | .authority, false => ParseFlag.nsExtRaw
  | .additional, true => ParseFlag.arBaseRaw | .additional, false => ParseFlag.arExtRaw

/-- type after `ares_dns_rec_type_isvalid` and the parse flags were applied -/
def effectiveType (flags : Nat) (sect : Sect) (rawType : Nat) : Nat :=
  let t := if recTypeValid rawType false then rawType else RecType.rawRR
  if flags &&& rawFlagFor sect (allowNameComp t) ≠ 0 then RecType.rawRR else t

/-- class stored by `ares_dns_record_rr_add` (OPT reuses the class field for the UDP size) -/
def rrClass (type qclass : Nat) : Nat := if type = RecType.opt then Class.in else qclass

/-- TTL stored by `ares_dns_record_rr_add` (OPT reuses the TTL field) -/
def rrTtl (type ttl : Nat) : Nat := if type = RecType.opt then 0 else ttl

/-- the validity checks of `ares_dns_record_rr_add` -/
def rrAddValid (type cls : Nat) : Bool := recTypeValid type false && classValid cls type false

/-- `ares_buf_consume(buf, n)` with the return value ignored -/
def consumeIgnore (bs : Bytes) (n : Nat) : P Unit := fun pos =>
  match consume bs n pos with
  | .ok _ pos1 => .ok () pos1
  | .err _ => .ok () pos
  | .fault k => .fault k

/-- `ares_dns_parse_rr`: returns the RR and the extended-rcode bits an OPT contributes -/
def parseRR (bs : Bytes) (flags : Nat) (sect : Sect) : P (RR × Nat) := do
  let name ← parseName bs false
  let rawType ← fetchBe16 bs
  let qclass ← fetchBe16 bs
  let ttl ← fetchBe32 bs
  let rdlength ← fetchBe16 bs
  let type := effectiveType flags sect rawType
  let bl ← bufLen bs
  if rdlength > bl then P.fail .ebadresp
  else if !(rrAddValid type (rrClass type qclass)) then P.fail .eformerr
  else
    let remainingLen ← bufLen bs
    let (fields, rcodeHigh) ← parseRRData bs rdlength type rawType qclass ttl
    let bl2 ← bufLen bs
    let processed ← subChecked remainingLen bl2
    if processed > rdlength then P.fail .ebadresp
    else
      let rr : RR := ⟨name, type, rrClass type qclass, rrTtl type ttl, fields⟩
      if processed < rdlength then do
        consumeIgnore bs (rdlength - processed)
        pure (rr, rcodeHigh)
      else pure (rr, rcodeHigh)

/-- `for (i = 0; i < count; i++) ares_dns_parse_rr(...)` -/
def parseRRs (bs : Bytes) (flags : Nat) (sect : Sect) : Nat → P (List RR × Nat)
  | 0 => pure ([], 0)
  | n + 1 => do
      let (rr, hi) ← parseRR bs flags sect
      let (rest, hi') ← parseRRs bs flags sect n
      pure (rr :: rest, hi ||| hi')

/-- `ares_dns_parse_qd` -/
def parseQd (bs : Bytes) : P Question := do
  let name ← parseName bs false
  let qtype ← fetchBe16 bs
  let qclass ← fetchBe16 bs
  -- ares_dns_record_query_add
  if !(recTypeValid qtype true) ∨ !(classValid qclass qtype true) then P.fail .eformerr
  else pure { name := name, qtype := qtype, qclass := qclass }

/-- header flag word → `ares_dns_flags_t` -/
def headerFlags (u16 : Nat) : Nat :=
  (if u16 &&& 0x8000 ≠ 0 then Flag.qr else 0) ||| (if u16 &&& 0x400 ≠ 0 then Flag.aa else 0) |||
  (if u16 &&& 0x200 ≠ 0 then Flag.tc else 0) ||| (if u16 &&& 0x100 ≠ 0 then Flag.rd else 0) |||
  (if u16 &&& 0x80 ≠ 0 then Flag.ra else 0) ||| (if u16 &&& 0x20 ≠ 0 then Flag.ad else 0) |||
  (if u16 &&& 0x10 ≠ 0 then Flag.cd else 0)

structure Header where
  id : Nat
  flags : Nat
  opcode : Nat
  rawRcode : Nat
  qdcount : Nat
  ancount : Nat
  nscount : Nat
  arcount : Nat
  deriving Repr, DecidableEq

/-- `ares_dns_parse_header` -/
def parseHeader (bs : Bytes) : P Header := do
  let id ← fetchBe16 bs
  let u16 ← fetchBe16 bs
  let qd ← fetchBe16 bs
  let an ← fetchBe16 bs
  let ns ← fetchBe16 bs
  let ar ← fetchBe16 bs
  let opcode := (u16 >>> 11) &&& 0xf
  -- ares_dns_record_create(dnsrec, id, flags, opcode, ARES_RCODE_NOERROR)
  if !(opcodeValid opcode) ∨ !(rcodeValid 0) then P.fail .eformerr
  else pure { id := id, flags := headerFlags u16, opcode := opcode, rawRcode := u16 &&& 0xf,
              qdcount := qd, ancount := an, nscount := ns, arcount := ar }

/-- `ares_dns_parse_buf` after the length check -/
def parseMsg (bs : Bytes) (flags : Nat) : P Rec := do
  let h ← parseHeader bs
  if h.qdcount = 0 then P.fail .ebadresp
  else if h.qdcount > 1 then P.fail .ebadresp
  else
    let q ← parseQd bs
    let (an, hi1) ← parseRRs bs flags .answer h.ancount
    let (ns, hi2) ← parseRRs bs flags .authority h.nscount
    let (ar, hi3) ← parseRRs bs flags .additional h.arcount
    let rawRcode := h.rawRcode ||| hi1 ||| hi2 ||| hi3
    pure { id := h.id, flags := h.flags, opcode := h.opcode,
           rcode := if rcodeValid rawRcode then rawRcode else 2,
           qd := [q], an := an, ns := ns, ar := ar }

/-- `ares_dns_parse(buf, buf_len, flags, &dnsrec)` for a non-NULL `buf` -/
def parse (bs : Bytes) (flags : Nat) : Outcome Rec :=
  if bs.size = 0 then .err .eformerr
  else if bs.size > 0xFFFF then .err .eformerr
  else
    match parseMsg bs flags 0 with
    | .ok r _ => .ok r
    | .err e => .err e
    | .fault k => .fault k

/-! ## legacy `ares_expand_name` / `ares_expand_string` -/

/-- `ares_expand_name(encoded = abuf + off, abuf, alen, &s, &enclen)` with `0 ≤ off`:
    returns the name and the encoded length -/
def expandName (abuf : Bytes) (off : Nat) : Outcome (BStr × Nat) :=
  if abuf.size = 0 then .err .ebadname          -- alen <= 0
  else if off ≥ abuf.size then .err .ebadname   -- encoded >= abuf + alen
  else
    -- ares_buf_set_position(buf, encoded - abuf) cannot fail here; start_len = ares_buf_len
    match (do let startLen ← bufLen abuf
              let n ← parseName abuf false
              let bl ← bufLen abuf
              let enclen ← subChecked startLen bl
              pure (n, enclen) : P (BStr × Nat)) off with
    | .ok r _ => .ok r
    | .err e => .err e
    | .fault k => .fault k

/-- C string view of a NUL-terminated buffer (`strlen`) -/
def cstr (s : BStr) : BStr := s.takeWhile (· ≠ 0)

/-- `ares_expand_string(encoded = abuf + off, abuf, alen, &s, &enclen)`: the string (binary safe,
    but the caller only sees it up to the first NUL) and the encoded length -/
def expandString (abuf : Bytes) (off : Nat) : Outcome (BStr × Nat) :=
  if abuf.size = 0 then .err .ebadresp
  else if off ≥ abuf.size then .err .ebadstr
  else
    match (do let startLen ← bufLen abuf
              let s ← parseDnsBinstr abuf startLen false
              let bl ← bufLen abuf
              let enclen ← subChecked startLen bl
              pure (s, enclen) : P (BStr × Nat)) off with
    | .ok r _ => .ok r
    | .err .ebadname => .err .ebadstr
    | .err .ebadresp => .err .ebadstr
    | .err e => .err e
    | .fault k => .fault k

end Cares.Dns
