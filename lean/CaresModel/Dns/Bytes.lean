import CaresModel.Dns.Rec
/-!
# Bounds-checked reader (reader half of `src/lib/str/ares_buf.c`) in explicit-check style

The buffer is a constant `Array UInt8` plus a cursor (`offset`).  Every *raw* C access (`ptr[i]`,
`memcpy(dst, ptr, len)`) goes through `rawByte` / `rawSlice`, which produce `Res.fault .oobRead`
when the index is outside `[0, data_len)`; every unguarded `size_t` subtraction goes through
`subChecked`, which produces `Res.fault .underflow` when it would wrap.  The explicit length checks
of the C code are modelled as written and return error statuses.  The C02 theorems say that no run
of any parser ever produces `fault` (DESIGN.md §4: raw reads are never silently totalised).
-/
namespace Cares.Dns

abbrev Bytes := Array UInt8

/-- the `ares_status_t` values the decoders can return -/
inductive Status where
  | eformerr | ebadname | ebadresp | enomem | ebadstr
  deriving DecidableEq, Repr, Inhabited

def Status.toNat : Status → Nat
  | .eformerr => 2 | .ebadname => 8 | .ebadresp => 10 | .enomem => 15 | .ebadstr => 17

/-- coarse class used when comparing with the implementation -/
def Status.cls : Status → String
  | .enomem => "nomem"
  | _ => "badresp"

inductive FaultKind where
  | oobRead      -- a raw read outside the supplied buffer
  | underflow    -- an unguarded size_t subtraction that would wrap
  deriving DecidableEq, Repr, Inhabited

/-- result of a reader operation started at some offset -/
inductive Res (α : Type) where
  | ok (a : α) (off : Nat)
  | err (e : Status)
  | fault (k : FaultKind)
  deriving Repr, Inhabited, DecidableEq

/-- a parser step: offset in, result (with new offset) out -/
abbrev P (α : Type) := Nat → Res α

namespace P
@[inline] def pure {α : Type} (a : α) : P α := fun off => .ok a off
@[inline] def bind {α β : Type} (m : P α) (f : α → P β) : P β := fun off =>
  match m off with
  | .ok a off' => f a off'
  | .err e => .err e
  | .fault k => .fault k
@[inline] def fail {α : Type} (e : Status) : P α := fun _ => .err e
@[inline] def faultWith {α : Type} (k : FaultKind) : P α := fun _ => .fault k
/-- current cursor (`ares_buf_get_position`) -/
@[inline] def getPos : P Nat := fun off => .ok off off
/-- move the cursor without a check (callers model the check of `ares_buf_set_position`) -/
@[inline] def setPos (n : Nat) : P Unit := fun _ => .ok () n
end P

instance : Monad P where
  pure := P.pure
  bind := P.bind

/-- unguarded `a - b` on `size_t` -/
def subChecked (a b : Nat) : P Nat := fun off => if b ≤ a then .ok (a - b) off else .fault .underflow

/-- `ares_buf_len`: `data_len - offset` (unguarded subtraction in C) -/
def bufLen (bs : Bytes) : P Nat := fun off => subChecked bs.size off off

/-- raw `ptr[i]` where `ptr = data + offset` -/
def rawByte (bs : Bytes) (i : Nat) : P UInt8 := fun off =>
  match bs[off + i]? with
  | some b => .ok b off
  | none => .fault .oobRead

/-- the bytes `[off, off+len)` as a list (total helper, used after bounds were established) -/
def slice (bs : Bytes) (off len : Nat) : BStr := (bs.extract off (off + len)).toList

/-- raw `memcpy(dst, ptr, len)` -/
def rawSlice (bs : Bytes) (len : Nat) : P BStr := fun off =>
  if off + len ≤ bs.size then .ok (slice bs off len) off else .fault .oobRead

/-- `ares_buf_consume` -/
def consume (bs : Bytes) (len : Nat) : P Unit := do
  let rem ← bufLen bs
  if rem < len then P.fail .ebadresp
  else fun off => .ok () (off + len)

/-- `ares_buf_fetch_be16` -/
def fetchBe16 (bs : Bytes) : P Nat := do
  let rem ← bufLen bs
  if rem < 2 then P.fail .ebadresp
  else
    let a ← rawByte bs 0
    let b ← rawByte bs 1
    consume bs 2
    pure ((a.toNat <<< 8) ||| b.toNat)

/-- `ares_buf_fetch_be32` -/
def fetchBe32 (bs : Bytes) : P Nat := do
  let rem ← bufLen bs
  if rem < 4 then P.fail .ebadresp
  else
    let a ← rawByte bs 0
    let b ← rawByte bs 1
    let c ← rawByte bs 2
    let d ← rawByte bs 3
    consume bs 4
    pure ((a.toNat <<< 24) ||| (b.toNat <<< 16) ||| (c.toNat <<< 8) ||| d.toNat)

/-- `ares_buf_fetch_bytes` / `ares_buf_fetch_bytes_dup` (allocation succeeds) -/
def fetchBytes (bs : Bytes) (len : Nat) : P BStr := do
  let rem ← bufLen bs
  if len = 0 ∨ rem < len then P.fail .ebadresp
  else
    let v ← rawSlice bs len
    consume bs len
    pure v

/-- `ares_buf_fetch_bytes(buf, &c, 1)` -/
def fetchByte (bs : Bytes) : P UInt8 := do
  let rem ← bufLen bs
  if rem < 1 then P.fail .ebadresp
  else
    let a ← rawByte bs 0
    consume bs 1
    pure a

/-! ## closed forms of the primitives (valid cursor: `off ≤ data_len`) -/

theorem P.bind_ok {α β : Type} {m : P α} {f : α → P β} {off off' : Nat} {a : α} (h : m off = .ok a off') :
    (m >>= f) off = f a off' := by
  show P.bind m f off = _
  simp [P.bind, h]

theorem P.bind_err {α β : Type} {m : P α} {f : α → P β} {off : Nat} {e : Status} (h : m off = .err e) :
    (m >>= f) off = .err e := by
  show P.bind m f off = _
  simp [P.bind, h]

theorem P.bind_fault {α β : Type} {m : P α} {f : α → P β} {off : Nat} {k : FaultKind}
    (h : m off = .fault k) : (m >>= f) off = .fault k := by
  show P.bind m f off = _
  simp [P.bind, h]

@[simp] theorem P.pure_apply {α : Type} (a : α) (off : Nat) : (Pure.pure a : P α) off = .ok a off := rfl
@[simp] theorem P.fail_apply {α : Type} (e : Status) (off : Nat) : (P.fail e : P α) off = .err e := rfl

theorem bufLen_eq {bs : Bytes} {off : Nat} (h : off ≤ bs.size) :
    bufLen bs off = .ok (bs.size - off) off := by
  simp [bufLen, subChecked, h]

theorem rawByte_eq {bs : Bytes} {off i : Nat} (h : off + i < bs.size) :
    rawByte bs i off = .ok bs[off + i] off := by
  simp [rawByte, h]

theorem rawSlice_eq {bs : Bytes} {off len : Nat} (h : off + len ≤ bs.size) :
    rawSlice bs len off = .ok (slice bs off len) off := by
  simp [rawSlice, h]

theorem consume_eq {bs : Bytes} {off len : Nat} (h : off ≤ bs.size) :
    consume bs len off = if off + len ≤ bs.size then .ok () (off + len) else .err .ebadresp := by
  unfold consume
  rw [P.bind_ok (bufLen_eq h)]
  by_cases hc : bs.size - off < len
  · have : ¬ off + len ≤ bs.size := by omega
    simp [hc, this]
  · have : off + len ≤ bs.size := by omega
    simp [hc, this]

theorem fetchByte_eq {bs : Bytes} {off : Nat} (h : off ≤ bs.size) :
    fetchByte bs off = if hlt : off < bs.size then .ok bs[off] (off + 1) else .err .ebadresp := by
  unfold fetchByte
  rw [P.bind_ok (bufLen_eq h)]
  by_cases hc : off < bs.size
  · have h1 : ¬ bs.size - off < 1 := by omega
    simp only [h1, ↓reduceIte, hc, ↓reduceDIte]
    rw [P.bind_ok (rawByte_eq (i := 0) (by omega)), P.bind_ok (by rw [consume_eq h, if_pos (by omega)])]
    rfl
  · have h1 : bs.size - off < 1 := by omega
    simp [hc, h1]

/-- big-endian 16-bit value at `off` (as the C code assembles it) -/
def be16At (bs : Bytes) (off : Nat) (h : off + 2 ≤ bs.size) : Nat :=
  (bs[off].toNat <<< 8) ||| bs[off + 1].toNat

theorem fetchBe16_eq {bs : Bytes} {off : Nat} (h : off ≤ bs.size) :
    fetchBe16 bs off = if h2 : off + 2 ≤ bs.size then .ok (be16At bs off h2) (off + 2) else .err .ebadresp := by
  unfold fetchBe16
  rw [P.bind_ok (bufLen_eq h)]
  by_cases hc : off + 2 ≤ bs.size
  · have h1 : ¬ bs.size - off < 2 := by omega
    simp only [h1, ↓reduceIte, hc, ↓reduceDIte]
    rw [P.bind_ok (rawByte_eq (i := 0) (by omega)), P.bind_ok (rawByte_eq (i := 1) (by omega)),
      P.bind_ok (by rw [consume_eq h, if_pos (by omega)])]
    rfl
  · have h1 : bs.size - off < 2 := by omega
    simp [hc, h1]

/-- big-endian 32-bit value at `off` -/
def be32At (bs : Bytes) (off : Nat) (h : off + 4 ≤ bs.size) : Nat :=
  (bs[off].toNat <<< 24) ||| (bs[off + 1].toNat <<< 16) ||| (bs[off + 2].toNat <<< 8) ||| bs[off + 3].toNat

theorem fetchBe32_eq {bs : Bytes} {off : Nat} (h : off ≤ bs.size) :
    fetchBe32 bs off = if h2 : off + 4 ≤ bs.size then .ok (be32At bs off h2) (off + 4) else .err .ebadresp := by
  unfold fetchBe32
  rw [P.bind_ok (bufLen_eq h)]
  by_cases hc : off + 4 ≤ bs.size
  · have h1 : ¬ bs.size - off < 4 := by omega
    simp only [h1, ↓reduceIte, hc, ↓reduceDIte]
    rw [P.bind_ok (rawByte_eq (i := 0) (by omega)), P.bind_ok (rawByte_eq (i := 1) (by omega)),
      P.bind_ok (rawByte_eq (i := 2) (by omega)), P.bind_ok (rawByte_eq (i := 3) (by omega)),
      P.bind_ok (by rw [consume_eq h, if_pos (by omega)])]
    rfl
  · have h1 : bs.size - off < 4 := by omega
    simp [hc, h1]

theorem fetchBytes_eq {bs : Bytes} {off len : Nat} (h : off ≤ bs.size) :
    fetchBytes bs len off =
      if len ≠ 0 ∧ off + len ≤ bs.size then .ok (slice bs off len) (off + len) else .err .ebadresp := by
  unfold fetchBytes
  rw [P.bind_ok (bufLen_eq h)]
  by_cases hc : len ≠ 0 ∧ off + len ≤ bs.size
  · have h1 : ¬ (len = 0 ∨ bs.size - off < len) := by omega
    rw [if_neg h1, if_pos hc]
    rw [P.bind_ok (rawSlice_eq hc.2), P.bind_ok (by rw [consume_eq h, if_pos hc.2])]
    rfl
  · have h1 : len = 0 ∨ bs.size - off < len := by omega
    simp [hc, h1]

end Cares.Dns
