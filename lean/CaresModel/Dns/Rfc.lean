import CaresModel.Dns.Parse
/-!
# Declarative reference decoder written from the RFCs (C04)

Written independently of the operational parser model (`Parse.lean`), with a different structure:

* **names** (RFC 1035 §4.1.4) are *label lists* (raw bytes), decoded structurally: `labelRun` scans
  one uncompressed run of labels forward; `name` says "a run ending in the zero octet, or in a
  pointer to a *prior occurrence*, i.e. to a name that starts strictly before this run started"
  (well-founded recursion on the start offset).  No cursor saving, no minimum tracking, no
  presentation-format escaping here.
* **RR framing** (§4.1.3) comes from RDLENGTH alone: the RDATA is the window
  `[rdStart, rdStart + RDLENGTH)`, the next RR starts right after it.
* **typed views** are driven by a format table transcribed from the RFCs' RDATA diagrams
  (`format`): RFC 1035 §3.3/§3.4 (A NS CNAME SOA PTR HINFO MX TXT), RFC 2535 §4.1 (SIG), RFC 3596
  (AAAA), RFC 2782 (SRV), RFC 3403 §4.1 (NAPTR), RFC 6698 §2.1 (TLSA), RFC 9460 §2.2 (SVCB/HTTPS),
  RFC 7553 §4.5 (URI), RFC 8659 §4.1 (CAA); fields must lie inside the RDATA window.
* **header** (§4.1.1) bits by division/modulo on the two flag octets; **OPT** (RFC 6891 §6.1.2/3):
  CLASS = UDP payload size, TTL = extended RCODE (8) | version (8) | flags (16); the message RCODE is
  `ext * 16 + header RCODE`.

`decode` is deliberately liberal where the RFCs only restrict *senders* (names longer than 255
octets, trailing octets after the fields of an RDATA or after the last RR, several OPT RRs — their
extended RCODE octets are OR-ed, which for the single OPT the RFC allows is that OPT's value);
`supported` is the explicitly written, decidable subset c-ares accepts.  `toRec` renders a decoded
message the way the c-ares record API presents it (presentation names, RAW_RR for undecoded types,
SERVFAIL for unknown RCODEs, option lists as first-insertion-ordered maps); "agrees" in the C04
theorems is `toRec m = some r`.
-/
namespace Cares.Dns.Rfc
open Cares.Dns Cares.Generated

abbrev Label := BStr

/-! ## octets -/

def byteAt (bs : Bytes) (p : Nat) : Option Nat := bs[p]?.map (·.toNat)

def u16At (bs : Bytes) (p : Nat) : Option Nat :=
  if h : p + 2 ≤ bs.size then some (bs[p].toNat * 256 + bs[p + 1].toNat) else none

def u32At (bs : Bytes) (p : Nat) : Option Nat :=
  if h : p + 4 ≤ bs.size then
    some (((bs[p].toNat * 256 + bs[p + 1].toNat) * 256 + bs[p + 2].toNat) * 256 + bs[p + 3].toNat)
  else none

/-! ## domain names (RFC 1035 §4.1.4) -/

/-- how an uncompressed run of labels ends -/
inductive Term where
  | zero (next : Nat)                 -- the zero octet; `next` = offset after it
  | ptr (target next : Nat)           -- a two-octet pointer; `next` = offset after it
  deriving Repr, DecidableEq

/-- the labels of the run starting at `p` and its terminator; label type bits `01`/`10` are
    reserved, a label or pointer cut off by the end of the message is malformed -/
def labelRun (bs : Bytes) (p : Nat) : Option (List Label × Term) :=
  if h : p < bs.size then
    let c := bs[p].toNat
    if c = 0 then some ([], .zero (p + 1))
    else if c < 64 then
      if p + 1 + c ≤ bs.size then
        match labelRun bs (p + 1 + c) with
        | some (ls, t) => some (slice bs (p + 1) c :: ls, t)
        | none => none
      else none
    else if 192 ≤ c then
      if h2 : p + 1 < bs.size then some ([], .ptr ((c - 192) * 256 + bs[p + 1].toNat) (p + 2))
      else none
    else none
  else none
termination_by bs.size - p

/-- the name at `p`: its labels and the offset just after its wire form.  A pointer must lead to a
    *prior* occurrence: the pointed-to name starts strictly before the run containing the pointer. -/
def name (bs : Bytes) (p : Nat) : Option (List Label × Nat) :=
  match labelRun bs p with
  | none => none
  | some (ls, .zero next) => some (ls, next)
  | some (ls, .ptr target next) =>
    if h : target < p then
      match name bs target with
      | some (ls', _) => some (ls ++ ls', next)
      | none => none
    else none
termination_by p

/-! ## RDATA formats -/

inductive FieldSpec where
  | u8 | u16 | u32
  | ipv4 | ipv6
  | domainName
  | charString (nonEmpty : Bool)   -- <character-string>: length octet + that many octets; `true`: length ≥ 1
  | charStrings           -- one or more <character-string>s filling the rest of the RDATA
  | opaqueRest            -- the rest of the RDATA, opaque octets
  | textRest              -- the rest of the RDATA, text, at least one octet (URI target, RFC 7553 §4.4)
  | tlvRest               -- (16-bit code, 16-bit length, value)* filling the rest (SvcParams, EDNS options)
  deriving Repr, DecidableEq

inductive FieldVal where
  | num (n : Nat)
  | bytes (b : BStr)
  | name (labels : List Label)
  | strs (l : List BStr)
  | tlvs (l : List (Nat × BStr))
  deriving Repr, DecidableEq

/-- RDATA layouts, transcribed from the RFC diagrams (field order as drawn there) -/
def format : Nat → Option (List FieldSpec)
  | 1 => some [.ipv4]                                                   -- A: ADDRESS
  | 2 => some [.domainName]                                             -- NS: NSDNAME
  | 5 => some [.domainName]                                             -- CNAME
  | 6 => some [.domainName, .domainName, .u32, .u32, .u32, .u32, .u32]  -- SOA: MNAME RNAME SERIAL REFRESH RETRY EXPIRE MINIMUM
  | 12 => some [.domainName]                                            -- PTR: PTRDNAME
  | 13 => some [.charString false, .charString false]                               -- HINFO: CPU OS
  | 15 => some [.u16, .domainName]                                      -- MX: PREFERENCE EXCHANGE
  | 16 => some [.charStrings]                                           -- TXT: TXT-DATA
  | 24 => some [.u16, .u8, .u8, .u32, .u32, .u32, .u16, .domainName, .opaqueRest]
      -- SIG: type covered, algorithm, labels, original TTL, expiration, inception, key tag, signer's name, signature
  | 28 => some [.ipv6]                                                  -- AAAA
  | 33 => some [.u16, .u16, .u16, .domainName]                          -- SRV: Priority Weight Port Target
  | 35 => some [.u16, .u16, .charString false, .charString false, .charString false, .domainName]
      -- NAPTR: ORDER PREFERENCE FLAGS SERVICES REGEXP REPLACEMENT
  | 52 => some [.u8, .u8, .u8, .opaqueRest]                             -- TLSA: usage selector matching-type data
  | 64 => some [.u16, .domainName, .tlvRest]                            -- SVCB: SvcPriority TargetName SvcParams
  | 65 => some [.u16, .domainName, .tlvRest]                            -- HTTPS
  | 256 => some [.u16, .u16, .textRest]                                 -- URI: Priority Weight Target
  | 257 => some [.u8, .charString true, .opaqueRest]
      -- CAA: flags, tag (RFC 8659 §4.1: "the tag length MUST be at least 1"), value
  | _ => none

/-- one or more… zero or more <character-string>s tiling `[p, e)` exactly -/
def charStrings (bs : Bytes) (e : Nat) (p : Nat) : Option (List BStr) :=
  if h : p < e ∧ p < bs.size then
    let len := bs[p].toNat
    if p + 1 + len ≤ e then
      match charStrings bs e (p + 1 + len) with
      | some l => some (slice bs (p + 1) len :: l)
      | none => none
    else none
  else if p = e then some [] else none
termination_by e - p

/-- `(code, length, value)` triples tiling `[p, e)` exactly -/
def tlvs (bs : Bytes) (e : Nat) (p : Nat) : Option (List (Nat × BStr)) :=
  if p = e then some []
  else if h : p + 4 ≤ e ∧ p + 4 ≤ bs.size then
    let code := bs[p].toNat * 256 + bs[p + 1].toNat
    let len := bs[p + 2].toNat * 256 + bs[p + 3].toNat
    if p + 4 + len ≤ e then
      match tlvs bs e (p + 4 + len) with
      | some l => some ((code, slice bs (p + 4) len) :: l)
      | none => none
    else none
  else none
termination_by e - p

/-- decode one field at `p` inside the RDATA window ending at `e` (`e ≤ message length`) -/
def decodeField (bs : Bytes) (e : Nat) (spec : FieldSpec) (p : Nat) : Option (FieldVal × Nat) :=
  match spec with
  | .u8 => if p + 1 ≤ e then (byteAt bs p).map fun v => (.num v, p + 1) else none
  | .u16 => if p + 2 ≤ e then (u16At bs p).map fun v => (.num v, p + 2) else none
  | .u32 => if p + 4 ≤ e then (u32At bs p).map fun v => (.num v, p + 4) else none
  | .ipv4 => if p + 4 ≤ e then some (.bytes (slice bs p 4), p + 4) else none
  | .ipv6 => if p + 16 ≤ e then some (.bytes (slice bs p 16), p + 16) else none
  | .domainName =>
    match name bs p with
    | some (ls, next) => if next ≤ e then some (.name ls, next) else none
    | none => none
  | .charString nonEmpty =>
    if p + 1 ≤ e then
      match byteAt bs p with
      | some len =>
        if p + 1 + len ≤ e ∧ (nonEmpty = true → len ≠ 0) then some (.bytes (slice bs (p + 1) len), p + 1 + len)
        else none
      | none => none
    else none
  | .charStrings =>
    match charStrings bs e p with
    | some [] => none                     -- "one or more"
    | some l => some (.strs l, e)
    | none => none
  | .opaqueRest => if p ≤ e then some (.bytes (slice bs p (e - p)), e) else none
  | .textRest => if p < e then some (.bytes (slice bs p (e - p)), e) else none
  | .tlvRest => (tlvs bs e p).map fun l => (.tlvs l, e)

def decodeFields (bs : Bytes) (e : Nat) : List FieldSpec → Nat → Option (List FieldVal)
  | [], _ => some []
  | spec :: rest, p =>
    match decodeField bs e spec p with
    | some (v, p') =>
      match decodeFields bs e rest p' with
      | some vs => some (v :: vs)
      | none => none
    | none => none

/-! ## message (RFC 1035 §4.1) -/

structure Question where
  labels : List Label
  qtype : Nat
  qclass : Nat
  deriving Repr, DecidableEq

structure RR where
  owner : List Label
  type : Nat
  cls : Nat
  ttl : Nat
  /-- the RDATA octets as they are in the message -/
  rdata : BStr
  /-- typed view for the types with a `format`, and for OPT its option list; `none` when the type has
      no format or the fields do not fit the RDATA -/
  view : Option (List FieldVal)
  deriving Repr, DecidableEq

structure Msg where
  id : Nat
  qr : Bool
  opcode : Nat
  aa : Bool
  tc : Bool
  rd : Bool
  ra : Bool
  z : Bool
  ad : Bool
  cd : Bool
  rcode : Nat          -- the 4-bit header RCODE
  questions : List Question
  answers : List RR
  authority : List RR
  additional : List RR
  deriving Repr, DecidableEq

def typeOPT : Nat := 41

/-- view of an RR: OPT carries `{attribute,value}` pairs in its RDATA (RFC 6891 §6.1.2) -/
def decodeView (bs : Bytes) (type rd e : Nat) : Option (List FieldVal) :=
  if type = typeOPT then decodeFields bs e [.tlvRest] rd
  else
    match format type with
    | some specs => decodeFields bs e specs rd
    | none => none

/-- §4.1.3: NAME TYPE CLASS TTL RDLENGTH RDATA -/
def decodeRR (bs : Bytes) (p : Nat) : Option (RR × Nat) :=
  match name bs p with
  | none => none
  | some (owner, q) =>
    match u16At bs q, u16At bs (q + 2), u32At bs (q + 4), u16At bs (q + 8) with
    | some type, some cls, some ttl, some rdlen =>
      let rd := q + 10
      if rd + rdlen ≤ bs.size then
        some ({ owner := owner, type := type, cls := cls, ttl := ttl, rdata := slice bs rd rdlen,
                view := decodeView bs type rd (rd + rdlen) }, rd + rdlen)
      else none
    | _, _, _, _ => none

def decodeRRs (bs : Bytes) : Nat → Nat → Option (List RR × Nat)
  | 0, p => some ([], p)
  | n + 1, p =>
    match decodeRR bs p with
    | some (rr, p') =>
      match decodeRRs bs n p' with
      | some (rest, p'') => some (rr :: rest, p'')
      | none => none
    | none => none

/-- §4.1.2: QNAME QTYPE QCLASS -/
def decodeQuestion (bs : Bytes) (p : Nat) : Option (Question × Nat) :=
  match name bs p with
  | none => none
  | some (labels, q) =>
    match u16At bs q, u16At bs (q + 2) with
    | some qtype, some qclass => some ({ labels := labels, qtype := qtype, qclass := qclass }, q + 4)
    | _, _ => none

def decodeQuestions (bs : Bytes) : Nat → Nat → Option (List Question × Nat)
  | 0, p => some ([], p)
  | n + 1, p =>
    match decodeQuestion bs p with
    | some (q, p') =>
      match decodeQuestions bs n p' with
      | some (rest, p'') => some (q :: rest, p'')
      | none => none
    | none => none

/-- the whole message; octets after the last RR are ignored -/
def decode (bs : Bytes) : Option Msg :=
  match u16At bs 0, byteAt bs 2, byteAt bs 3, u16At bs 4, u16At bs 6, u16At bs 8, u16At bs 10 with
  | some id, some f1, some f2, some qdcount, some ancount, some nscount, some arcount =>
    match decodeQuestions bs qdcount 12 with
    | none => none
    | some (qs, p1) =>
      match decodeRRs bs ancount p1 with
      | none => none
      | some (an, p2) =>
        match decodeRRs bs nscount p2 with
        | none => none
        | some (ns, p3) =>
          match decodeRRs bs arcount p3 with
          | none => none
          | some (ar, _) =>
            -- |QR| Opcode(4) |AA|TC|RD|  then  |RA| Z|AD|CD| RCODE(4) |   (RFC 1035 §4.1.1, RFC 2535 §6.1)
            some { id := id, qr := f1 / 128 = 1, opcode := f1 / 8 % 16, aa := f1 / 4 % 2 = 1,
                   tc := f1 / 2 % 2 = 1, rd := f1 % 2 = 1, ra := f2 / 128 = 1, z := f2 / 64 % 2 = 1,
                   ad := f2 / 32 % 2 = 1, cd := f2 / 16 % 2 = 1, rcode := f2 % 16,
                   questions := qs, answers := an, authority := ns, additional := ar }
  | _, _, _, _, _, _, _ => none

/-! ## the record API's presentation of a decoded message -/

def Msg.rrs (m : Msg) : List RR := m.answers ++ m.authority ++ m.additional

/-- extended RCODE octet (RFC 6891 §6.1.3: upper 8 bits of the OPT TTL); OR over the OPT RRs -/
def Msg.extRcode (m : Msg) : Nat :=
  (m.rrs.filter (·.type = typeOPT)).foldl (fun acc rr => acc ||| rr.ttl / 16777216) 0

/-- full 12-bit RCODE -/
def Msg.fullRcode (m : Msg) : Nat := m.extRcode * 16 + m.rcode

/-- types c-ares decodes (everything with a `format`, and OPT) -/
def decodedType (t : Nat) : Bool := t = typeOPT || (format t).isSome

/-- how the API presents one decoded field -/
def toVal : FieldSpec → FieldVal → Option Val
  | .u8, .num n => some (.u8 n)
  | .u16, .num n => some (.u16 n)
  | .u32, .num n => some (.u32 n)
  | .ipv4, .bytes b => some (.addr b)
  | .ipv6, .bytes b => some (.addr6 b)
  | .domainName, .name ls => some (.name (some (escapeName ls)))
  | .charString _, .bytes b => some (.str (some b))
  | .charStrings, .strs l => some (.abin l)
  | .opaqueRest, .bytes b => some (.bin (some b))
  | .textRest, .bytes b => some (.name (some b))
  | .tlvRest, .tlvs l => some (.opt (l.foldl (fun acc kv => setOpt acc kv.1 kv.2) []))
  | _, _ => none

def toVals : List FieldSpec → List FieldVal → Option (List Val)
  | [], [] => some []
  | s :: ss, v :: vs =>
    match toVal s v, toVals ss vs with
    | some x, some xs => some (x :: xs)
    | _, _ => none
  | _, _ => none

/-- one RR as `ares_dns_rr_t` shows it: undecoded types become RAW_RR (type in the first key, RDATA
    octets in the second); OPT keeps CLASS/TTL out of the generic fields -/
def RR.toRec (rr : RR) : Option Cares.Dns.RR :=
  if rr.type = typeOPT then
    match rr.view with
    | some [.tlvs l] =>
      some { name := escapeName rr.owner, type := RecType.opt, cls := Class.in, ttl := 0,
             fields := [(Key.optUdpSize, .u16 rr.cls), (Key.optVersion, .u8 (rr.ttl / 65536 % 256)),
                        (Key.optFlags, .u16 (rr.ttl % 65536)),
                        (Key.optOptions, .opt (l.foldl (fun acc kv => setOpt acc kv.1 kv.2) []))] }
    | _ => none
  else
    match format rr.type with
    | some specs =>
      match rr.view with
      | some vals =>
        match toVals specs vals with
        | some vs => some { name := escapeName rr.owner, type := rr.type, cls := rr.cls, ttl := rr.ttl,
                            fields := (rrKeys rr.type).zip vs }
        | none => none
      | none => none
    | none =>
      some { name := escapeName rr.owner, type := RecType.rawRR, cls := rr.cls, ttl := rr.ttl,
             fields := [(Key.rawRRType, .u16 rr.type), (Key.rawRRData, .bin (some rr.rdata))] }

def rrsToRec : List RR → Option (List Cares.Dns.RR)
  | [] => some []
  | rr :: rest =>
    match rr.toRec, rrsToRec rest with
    | some x, some xs => some (x :: xs)
    | _, _ => none

def Question.toRec (q : Question) : Cares.Dns.Question :=
  { name := escapeName q.labels, qtype := q.qtype, qclass := q.qclass }

def flagBits (m : Msg) : Nat :=
  (if m.qr then Flag.qr else 0) + (if m.aa then Flag.aa else 0) + (if m.tc then Flag.tc else 0) +
  (if m.rd then Flag.rd else 0) + (if m.ra then Flag.ra else 0) + (if m.ad then Flag.ad else 0) +
  (if m.cd then Flag.cd else 0)

/-- the record the c-ares API should show for `m` (`none`: some RR of a decoded type has no
    well-formed typed view, so no record can show it) -/
def Msg.toRec (m : Msg) : Option Rec :=
  match rrsToRec m.answers, rrsToRec m.authority, rrsToRec m.additional with
  | some an, some ns, some ar =>
    some { id := m.id, flags := flagBits m, opcode := m.opcode,
           -- `ares_dns_record_get_rcode` can only return codes of its enum: others read as SERVFAIL
           rcode := if rcodeValid m.fullRcode then m.fullRcode else 2,
           qd := m.questions.map Question.toRec, an := an, ns := ns, ar := ar }
  | _, _, _ => none

/-! ## the subset c-ares supports, written out -/

def printable (b : BStr) : Bool := b.all fun c => 32 ≤ c.toNat && c.toNat ≤ 126

/-- per-field restrictions c-ares adds to the RFC format -/
def fieldSupported : FieldSpec → FieldVal → Bool
  | .charString _, .bytes b => printable b           -- HINFO, NAPTR strings, CAA tag: printable ASCII only
  | .opaqueRest, .bytes b => b.length != 0            -- SIG signature, TLSA data, CAA value: not empty
  | .textRest, .bytes b => printable b                -- URI target: printable ASCII only
  | _, _ => true

def fieldsSupported : List FieldSpec → List FieldVal → Bool
  | s :: ss, v :: vs => fieldSupported s v && fieldsSupported ss vs
  | _, _ => true

def classSupported (type cls : Nat) : Bool :=
  cls = 1 || cls = 3 || cls = 4 || cls = 254 || (cls = 255 && type = 24)   -- ANY only for SIG

def RR.supported (rr : RR) : Bool :=
  if rr.type = typeOPT then rr.view.isSome          -- options must tile the RDATA
  else
    match format rr.type with
    | some specs =>
      classSupported rr.type rr.cls &&
        (match rr.view with
         | some vals => fieldsSupported specs vals
         | none => false)
    | none => rr.type != 255                        -- `*` (ANY) is a QTYPE, not an RR type

/-- what c-ares decodes: a message of at most 65535 octets with a known opcode, exactly one question
    of class IN/CH/HS/NONE/ANY, and RRs as restricted above -/
def supported (bs : Bytes) (m : Msg) : Bool :=
  decide (bs.size ≤ 65535) && opcodeValid m.opcode && decide (m.questions.length = 1) &&
    m.questions.all (fun q => q.qclass = 1 || q.qclass = 3 || q.qclass = 4 || q.qclass = 254 || q.qclass = 255) &&
    m.rrs.all RR.supported

end Cares.Dns.Rfc
