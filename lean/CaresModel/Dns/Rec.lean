/-!
# DNS record data type (`ares_dns_record_t` as seen through the public getters) and its canonical dump

STABLE INTERFACE — imported by the parser model (C02/C04), the writer model (C03) and the legacy
models (C18).  `Rec.dump` prints exactly what `harness/hcodec_dump.h` prints for the C structure
(DESIGN.md Appendix A.2):

```
H id=<n> qr=<b> op=<n> aa=<b> tc=<b> rd=<b> ra=<b> ad=<b> cd=<b> rc=<n> ; Q n=<hex> t=<n> c=<n> ;
RR s=an|ns|ar n=<hex> t=<n> c=<n> ttl=<n> <key>=<value> ...
```

* items are separated by `" ; "`; everything is on one line;
* `<key>` is the numeric value of `ares_dns_rr_key_t`, keys appear in `ares_dns_rr_get_keys` order;
* values: u8/u16/u32 decimal; addr/addr6/name/str/bin lower-case hex (`-` = empty, `~` = unset/NULL);
  abin `[h1,h2,…]`; opt `{id:hex,id:hex,…}`;
* names and strings are the C `char *` presentation text (escapes kept), as bytes.
-/
namespace Cares.Dns

/-- a byte string held in a record (names, strings, binary values) -/
abbrev BStr := List UInt8

/-! ## enum values of `include/ares_dns_record.h` (public ABI) -/
namespace RecType
def a : Nat := 1
def ns : Nat := 2
def cname : Nat := 5
def soa : Nat := 6
def ptr : Nat := 12
def hinfo : Nat := 13
def mx : Nat := 15
def txt : Nat := 16
def sig : Nat := 24
def aaaa : Nat := 28
def srv : Nat := 33
def naptr : Nat := 35
def opt : Nat := 41
def tlsa : Nat := 52
def svcb : Nat := 64
def https : Nat := 65
def any : Nat := 255
def uri : Nat := 256
def caa : Nat := 257
def rawRR : Nat := 65536
end RecType

namespace Class
def «in» : Nat := 1
def chaos : Nat := 3
def hesiod : Nat := 4
def none : Nat := 254
def any : Nat := 255
end Class

/- `ares_dns_flags_t` bits -/
namespace Flag
def qr : Nat := 1
def aa : Nat := 2
def tc : Nat := 4
def rd : Nat := 8
def ra : Nat := 16
def ad : Nat := 32
def cd : Nat := 64
end Flag

/- `ares_dns_rr_key_t` = type * 100 + n -/
namespace Key
def aAddr : Nat := 101
def nsNsdname : Nat := 201
def cnameCname : Nat := 501
def soaMname : Nat := 601
def soaRname : Nat := 602
def soaSerial : Nat := 603
def soaRefresh : Nat := 604
def soaRetry : Nat := 605
def soaExpire : Nat := 606
def soaMinimum : Nat := 607
def ptrDname : Nat := 1201
def hinfoCpu : Nat := 1301
def hinfoOs : Nat := 1302
def mxPreference : Nat := 1501
def mxExchange : Nat := 1502
def txtData : Nat := 1601
def sigTypeCovered : Nat := 2401
def sigAlgorithm : Nat := 2402
def sigLabels : Nat := 2403
def sigOriginalTtl : Nat := 2404
def sigExpiration : Nat := 2405
def sigInception : Nat := 2406
def sigKeyTag : Nat := 2407
def sigSignersName : Nat := 2408
def sigSignature : Nat := 2409
def aaaaAddr : Nat := 2801
def srvPriority : Nat := 3302
def srvWeight : Nat := 3303
def srvPort : Nat := 3304
def srvTarget : Nat := 3305
def naptrOrder : Nat := 3501
def naptrPreference : Nat := 3502
def naptrFlags : Nat := 3503
def naptrServices : Nat := 3504
def naptrRegexp : Nat := 3505
def naptrReplacement : Nat := 3506
def optUdpSize : Nat := 4101
def optVersion : Nat := 4103
def optFlags : Nat := 4104
def optOptions : Nat := 4105
def tlsaCertUsage : Nat := 5201
def tlsaSelector : Nat := 5202
def tlsaMatch : Nat := 5203
def tlsaData : Nat := 5204
def svcbPriority : Nat := 6401
def svcbTarget : Nat := 6402
def svcbParams : Nat := 6403
def httpsPriority : Nat := 6501
def httpsTarget : Nat := 6502
def httpsParams : Nat := 6503
def uriPriority : Nat := 25601
def uriWeight : Nat := 25602
def uriTarget : Nat := 25603
def caaCritical : Nat := 25701
def caaTag : Nat := 25702
def caaValue : Nat := 25703
def rawRRType : Nat := 6553601
def rawRRData : Nat := 6553602
end Key

/-- A typed field value, one constructor per family of `ares_dns_datatype_t`
    (BIN and BINP share `bin`; `none` = the C pointer is NULL / never set). -/
inductive Val where
  | addr (b : BStr)                    -- INADDR, 4 bytes network order
  | addr6 (b : BStr)                   -- INADDR6, 16 bytes
  | u8 (n : Nat)
  | u16 (n : Nat)
  | u32 (n : Nat)
  | name (s : Option BStr)             -- NAME: presentation text
  | str (s : Option BStr)              -- STR
  | bin (b : Option BStr)              -- BIN / BINP
  | abin (l : List BStr)               -- ABINP (TXT): the individual character-strings
  | opt (l : List (Nat × BStr))        -- OPT: (option id, value) in stored order
  deriving DecidableEq, Repr, Inhabited

inductive Sect where
  | answer | authority | additional
  deriving DecidableEq, Repr, Inhabited

def Sect.tag : Sect → String
  | .answer => "an" | .authority => "ns" | .additional => "ar"

/-- numeric value of `ares_dns_section_t` -/
def Sect.toNat : Sect → Nat
  | .answer => 1 | .authority => 2 | .additional => 3

structure Question where
  name : BStr
  qtype : Nat
  qclass : Nat
  deriving DecidableEq, Repr, Inhabited

structure RR where
  name : BStr
  /-- `ares_dns_rec_type_t` value (`RecType.rawRR` = 65536 for undecoded types) -/
  type : Nat
  cls : Nat
  ttl : Nat
  /-- `(ares_dns_rr_key_t, value)` in `ares_dns_rr_get_keys` order -/
  fields : List (Nat × Val)
  deriving DecidableEq, Repr, Inhabited

structure Rec where
  id : Nat
  /-- `ares_dns_flags_t` bitmask (`Flag.*`) -/
  flags : Nat
  opcode : Nat
  /-- what `ares_dns_record_get_rcode` returns -/
  rcode : Nat
  qd : List Question
  an : List RR
  ns : List RR
  ar : List RR
  deriving DecidableEq, Repr, Inhabited

def Rec.hasFlag (r : Rec) (f : Nat) : Bool := r.flags &&& f != 0

def Rec.section (r : Rec) : Sect → List RR
  | .answer => r.an | .authority => r.ns | .additional => r.ar

def RR.get? (rr : RR) (key : Nat) : Option Val := (rr.fields.find? (·.1 == key)).map (·.2)

/-! ## hex and the canonical dump -/

def hexDigit (n : Nat) : Char :=
  if n < 10 then Char.ofNat (48 + n) else Char.ofNat (87 + n)

def hexByte (b : UInt8) : String :=
  String.ofList [hexDigit (b.toNat / 16), hexDigit (b.toNat % 16)]

/-- lower-case hex, `-` for the empty string -/
def hex (bs : BStr) : String :=
  match bs with
  | [] => "-"
  | _ => String.join (bs.map hexByte)

/-- `~` for NULL -/
def hexOpt : Option BStr → String
  | none => "~"
  | some b => hex b

def bit (b : Bool) : String := if b then "1" else "0"

def Val.dump : Val → String
  | .addr b => hex b
  | .addr6 b => hex b
  | .u8 n => toString n
  | .u16 n => toString n
  | .u32 n => toString n
  | .name s => hexOpt s
  | .str s => hexOpt s
  | .bin b => hexOpt b
  | .abin l => "[" ++ ",".intercalate (l.map hex) ++ "]"
  | .opt l => "{" ++ ",".intercalate (l.map fun (p : Nat × BStr) => toString p.1 ++ ":" ++ hex p.2) ++ "}"

def Question.dump (q : Question) : String :=
  "Q n=" ++ hex q.name ++ " t=" ++ toString q.qtype ++ " c=" ++ toString q.qclass

def RR.dump (s : Sect) (rr : RR) : String :=
  "RR s=" ++ s.tag ++ " n=" ++ hex rr.name ++ " t=" ++ toString rr.type ++ " c=" ++ toString rr.cls ++
    " ttl=" ++ toString rr.ttl ++
    String.join (rr.fields.map fun (p : Nat × Val) => " " ++ toString p.1 ++ "=" ++ p.2.dump)

def Rec.dumpHeader (r : Rec) : String :=
  "H id=" ++ toString r.id ++ " qr=" ++ bit (r.hasFlag Flag.qr) ++ " op=" ++ toString r.opcode ++
    " aa=" ++ bit (r.hasFlag Flag.aa) ++ " tc=" ++ bit (r.hasFlag Flag.tc) ++
    " rd=" ++ bit (r.hasFlag Flag.rd) ++ " ra=" ++ bit (r.hasFlag Flag.ra) ++
    " ad=" ++ bit (r.hasFlag Flag.ad) ++ " cd=" ++ bit (r.hasFlag Flag.cd) ++
    " rc=" ++ toString r.rcode

/-- the canonical one-line dump (DESIGN.md A.2) -/
def Rec.dump (r : Rec) : String :=
  " ; ".intercalate
    ([r.dumpHeader] ++ r.qd.map Question.dump ++ r.an.map (RR.dump .answer) ++
      r.ns.map (RR.dump .authority) ++ r.ar.map (RR.dump .additional))

end Cares.Dns
