import CaresModel.Dns.Bytes
import CaresModel.Generated.DnsTables
/-!
# Presentation format of domain names: escaping (parse side) and splitting (write side)

* `escapeByte / escapeLabel / escapeName` — what `ares_fetch_dnsname_into_buf` (called from
  `ares_dns_name_parse`) writes for the raw label bytes: non-printable bytes as `\DDD`, the
  reserved characters `" . ; \ ( ) @ $` as `\c`, labels joined by `.`.
* `splitDnsName` — `ares_split_dns_name` + `ares_parse_dns_name_escape` of `ares_dns_name.c`:
  presentation text back to raw labels (used by the writer; here for the C04 round-trip theorem).
The character classes come from the generated tables.
-/
namespace Cares.Dns
open Cares.Generated

def chDot : UInt8 := 46
def chBackslash : UInt8 := 92

/-- ASCII digit for `n < 10` -/
def digitCh (n : Nat) : UInt8 := (48 + n).toUInt8

/-- one raw label byte in presentation form -/
def escapeByte (c : UInt8) : BStr :=
  if !isPrint c.toNat then
    [chBackslash, digitCh (c.toNat / 100), digitCh ((c.toNat % 100) / 10), digitCh (c.toNat % 10)]
  else if isReservedCh c.toNat then [chBackslash, c]
  else [c]

def escapeLabel (l : BStr) : BStr := l.flatMap escapeByte

/-- labels joined by `.` (the root name is the empty string) -/
def escapeName (labels : List BStr) : BStr := [chDot].intercalate (labels.map escapeLabel)

/-! ## `ares_split_dns_name` -/

/-- state of the scanning loop: finished labels (in order) and the label being filled -/
structure SplitSt where
  done : List BStr
  cur : BStr
  deriving Repr, DecidableEq

/-- `ares_parse_dns_name_escape`: what follows a backslash — three decimal digits (value ≤ 255) or
    any single byte; returns the byte and the remaining text -/
def parseEscape (validateHost : Bool) (rest : BStr) : Except Status (UInt8 × BStr) :=
  match rest with
  | [] => .error .ebadname
  | e :: rest1 =>
    if isDigit e.toNat then
      match rest1 with
      | d1 :: d2 :: rest2 =>
        if isDigit d1.toNat ∧ isDigit d2.toNat then
          let val := (e.toNat - 48) * 100 + (d1.toNat - 48) * 10 + (d2.toNat - 48)
          if val > 255 then .error .ebadname
          else if validateHost ∧ !isHostnameCh val then .error .ebadname
          else .ok (val.toUInt8, rest2)
        else .error .ebadname
      | _ => .error .ebadname
    else if validateHost ∧ !isHostnameCh e.toNat then .error .ebadname
    else .ok (e, rest1)

theorem parseEscape_length {v : Bool} {rest rest' : BStr} {b : UInt8}
    (h : parseEscape v rest = .ok (b, rest')) : rest'.length < rest.length := by
  unfold parseEscape at h
  split at h
  · simp at h
  · rename_i e rest1
    split at h
    · split at h
      · rename_i d1 d2 rest2
        split at h
        · simp only at h
          split at h
          · simp at h
          · split at h
            · simp at h
            · injection h with h; injection h with _ h2; subst h2; simp; omega
        · simp at h
      · simp at h
    · split at h
      · simp at h
      · injection h with h; injection h with _ h2; subst h2; simp

/-- the `while (fetch_bytes(namebuf, &c, 1) == SUCCESS)` loop of `ares_split_dns_name` -/
def splitLoop (validateHost : Bool) (text : BStr) (st : SplitSt) : Except Status SplitSt :=
  match text with
  | [] => .ok st
  | c :: rest =>
    if c = chDot then splitLoop validateHost rest { done := st.done ++ [st.cur], cur := [] }
    else if c = chBackslash then
      match h : parseEscape validateHost rest with
      | .error e => .error e
      | .ok (b, rest') => splitLoop validateHost rest' { st with cur := st.cur ++ [b] }
    else if validateHost ∧ !isHostnameCh c.toNat then .error .ebadname
    else splitLoop validateHost rest { st with cur := st.cur ++ [c] }
termination_by text.length
decreasing_by
  · simp
  · have := parseEscape_length h
    simp only [List.length_cons]
    omega
  · simp

/-- all labels after the loop, then "remove trailing blank label", then "`.` gave two blank labels" -/
def splitFinish (st : SplitSt) : List BStr :=
  let labels := st.done ++ [st.cur]
  let labels := if labels.getLast?.map List.length = some 0 then labels.dropLast else labels
  if labels.length = 1 ∧ labels.getLast?.map List.length = some 0 then labels.dropLast else labels

/-- the scan without the final length validation -/
def unescapeName (validateHost : Bool) (name : BStr) : Except Status (List BStr) :=
  (splitLoop validateHost name { done := [], cur := [] }).map splitFinish

/-- the length validation at the end of `ares_split_dns_name` -/
def labelsLengthOk (labels : List BStr) : Bool :=
  labels.all (fun l => l.length ≠ 0 ∧ l.length ≤ 63) &&
    !(labels.length ≠ 0 && (labels.map List.length).sum + labels.length - 1 > 255)

/-- `ares_split_dns_name(labels, validate_hostname, name)` -/
def splitDnsName (validateHost : Bool) (name : BStr) : Except Status (List BStr) :=
  match unescapeName validateHost name with
  | .error e => .error e
  | .ok labels => if labelsLengthOk labels then .ok labels else .error .ebadname

end Cares.Dns
