/-!
# RR field scripts (DESIGN.md §3.2)

The per-type RDATA codecs of `ares_dns_parse.c` / `ares_dns_write.c` are straight-line sequences of
calls to a handful of field helpers.  `tools/gen_rrscripts.py` walks the clang AST of every
`ares_dns_{parse,write}_rr_<type>` body and emits, in source order, one `(FieldKind, key)` pair per
helper call into `CaresModel/Generated/RRScripts.lean`.  The *meaning* of each kind is modelled by hand
(`Cares.Dns.Write.writeField`, the parser's `parseField`); order, keys and boolean arguments come
from the source on every run.

OPT and RAW_RR rewrite the fixed RR header and are modelled by hand (their generated entry is only
the ordered list of helper calls, used as a change detector).
-/
namespace Cares.Dns

inductive FieldKind where
  /-- `ares_dns_{write_rr,parse_and_set}_be16` -/
  | be16
  | be32
  | u8
  /-- write: `ares_dns_write_rr_name(.., validate_hostname, key)`;
      parse: `ares_dns_parse_and_set_dns_name(buf, is_hostname, rr, key)` -/
  | name (hostname : Bool)
  /-- write: `ares_dns_write_rr_str`; parse: `ares_dns_parse_and_set_dns_str(.., key, blank_allowed)`
      (the flag is `true` on the write side, where it has no counterpart) -/
  | str (blankAllowed : Bool)
  /-- 4 raw bytes (`ares_dns_rr_get_addr` + append / fetch + `ares_dns_rr_set_addr`) -/
  | addr4
  | addr6
  /-- sequence of character-strings up to the end of RDATA (`ares_dns_write_rr_abin` /
      `ares_dns_parse_and_set_dns_abin(.., validate_printable)`) -/
  | abin (validatePrintable : Bool)
  /-- binary "rest of RDATA", must be non-empty (`ares_dns_rr_get_bin` + append /
      `ares_buf_fetch_bytes_dup` + `ares_dns_rr_set_bin_own`) -/
  | binRest
  /-- text "rest of RDATA", must be non-empty (URI target) -/
  | strRest
  /-- loop over `(be16 id, be16 len, value)` triples up to the end of RDATA -/
  | opts
  deriving DecidableEq, Repr, Inhabited

/-- a script: ordered `(kind, ares_dns_rr_key_t)` pairs -/
abbrev Script := List (FieldKind × Nat)

/-- lookup in a generated table `[(ares_dns_rec_type_t, script)]` -/
def scriptOf (tbl : List (Nat × Script)) (type : Nat) : Option Script :=
  (tbl.find? (·.1 == type)).map (·.2)

end Cares.Dns
