import CaresModel.Dns.Escape
/-!
# `ares_dns_name_parse` (parse side of `src/lib/record/ares_dns_name.c`)

The decompression loop is modelled with the loop variables of the C function (`offset` of the
buffer, `label_start`, `save_offset`, the output buffer) and is defined by **well-founded
recursion without fuel** on the measure `(min label_start pos, data_len - pos)`: a compression
pointer must go strictly below the lowest position visited so far, a label moves forward.
`NameRun` also returns the number of loop iterations and the pointers followed, for the C02
theorems about them.
-/
namespace Cares.Dns
open Cares.Generated

/-! ### facts about the reader primitives needed for termination -/

/-- a successful reader step started inside the buffer stays inside it (helper for termination) -/
theorem fetchByte_ok {bs : Bytes} {pos pos1 : Nat} {c : UInt8} (h : fetchByte bs pos = .ok c pos1) :
    pos1 = pos + 1 ∧ pos + 1 ≤ bs.size := by
  by_cases hle : pos ≤ bs.size
  · rw [fetchByte_eq hle] at h
    split at h
    · injection h with h1 h2; omega
    · simp at h
  · unfold fetchByte at h
    have : bufLen bs pos = .fault .underflow := by simp [bufLen, subChecked, hle]
    rw [P.bind_fault this] at h
    simp at h

/-- `(c & 0x3F) << 8 | c2` -/
def ptrOffset (c c2 : UInt8) : Nat := ((c.toNat &&& 0x3F) <<< 8) ||| c2.toNat

/-- `ares_fetch_dnsname_into_buf(buf, dest, len, is_hostname)`: returns the presentation text of
    one label -/
def fetchLabel (bs : Bytes) (isHost : Bool) (len : Nat) : P BStr := do
  let rem ← bufLen bs
  if len = 0 ∨ rem < len then P.fail .ebadresp
  else
    let raw ← rawSlice bs len
    if isHost ∧ !(raw.all fun c => isHostnameCh c.toNat) then P.fail .ebadresp
    else
      consume bs len
      pure (escapeLabel raw)

theorem fetchLabel_eq {bs : Bytes} {isHost : Bool} {len pos : Nat} (hle : pos ≤ bs.size) :
    fetchLabel bs isHost len pos =
      if len ≠ 0 ∧ pos + len ≤ bs.size then
        (if isHost ∧ !((slice bs pos len).all fun c => isHostnameCh c.toNat) then .err .ebadresp
         else .ok (escapeLabel (slice bs pos len)) (pos + len))
      else .err .ebadresp := by
  unfold fetchLabel
  rw [P.bind_ok (bufLen_eq hle)]
  by_cases hc : len ≠ 0 ∧ pos + len ≤ bs.size
  · have h1 : ¬ (len = 0 ∨ bs.size - pos < len) := by omega
    rw [if_neg h1, if_pos hc, P.bind_ok (rawSlice_eq hc.2)]
    split
    · rfl
    · rw [P.bind_ok (by rw [consume_eq hle, if_pos hc.2])]
      rfl
  · have h1 : len = 0 ∨ bs.size - pos < len := by omega
    rw [if_pos h1, if_neg hc]
    rfl

theorem fetchLabel_ok {bs : Bytes} {isHost : Bool} {len pos pos1 : Nat} {l : BStr}
    (h : fetchLabel bs isHost len pos = .ok l pos1) :
    pos1 = pos + len ∧ len ≠ 0 ∧ pos + len ≤ bs.size := by
  by_cases hle : pos ≤ bs.size
  · rw [fetchLabel_eq hle] at h
    split at h
    · split at h
      · simp at h
      · injection h with h1 h2; omega
    · simp at h
  · unfold fetchLabel at h
    have : bufLen bs pos = .fault .underflow := by simp [bufLen, subChecked, hle]
    rw [P.bind_fault this] at h
    simp at h

/-- outcome of one run of the decompression loop -/
structure NameRun where
  out : Res BStr
  /-- loop iterations performed -/
  iters : Nat
  /-- pointers followed, most recent first: (position of the pointer, target, `label_start` then) -/
  jumps : List (Nat × Nat × Nat)
  deriving Repr

/-- the `while (1)` loop of `ares_dns_name_parse` -/
def nameLoop (bs : Bytes) (isHost : Bool) (pos ls save : Nat) (acc : BStr) (iters : Nat)
    (jumps : List (Nat × Nat × Nat)) : NameRun :=
  -- keep track of the minimum label starting position to prevent forward jumping
  let ls' := if ls > pos then pos else ls
  match h : fetchByte bs pos with
  | .err e => ⟨.err e, iters + 1, jumps⟩
  | .fault k => ⟨.fault k, iters + 1, jumps⟩
  | .ok c pos1 =>
    if c &&& 0xC0 = 0xC0 then
      match h2 : fetchByte bs pos1 with
      | .err e => ⟨.err e, iters + 1, jumps⟩
      | .fault k => ⟨.fault k, iters + 1, jumps⟩
      | .ok c2 pos2 =>
        let offset := ptrOffset c c2
        if offset ≥ ls' then ⟨.err .ebadname, iters + 1, jumps⟩
        else
          -- first time we make a jump, save the current position
          let save' := if save = 0 then pos2 else save
          -- ares_buf_set_position
          if offset > bs.size then ⟨.err .ebadname, iters + 1, jumps⟩
          else nameLoop bs isHost offset ls' save' acc (iters + 1) ((pos, offset, ls') :: jumps)
    else if c &&& 0xC0 ≠ 0 then ⟨.err .ebadname, iters + 1, jumps⟩
    else if c = 0 then ⟨.ok acc (if save ≠ 0 then save else pos1), iters + 1, jumps⟩
    else
      -- labels are separated by periods
      let acc' := if acc.length ≠ 0 then acc ++ [chDot] else acc
      match h3 : fetchLabel bs isHost c.toNat pos1 with
      | .err e => ⟨.err e, iters + 1, jumps⟩
      | .fault k => ⟨.fault k, iters + 1, jumps⟩
      | .ok lab pos3 => nameLoop bs isHost pos3 ls' save (acc' ++ lab) (iters + 1) jumps
termination_by (min ls pos, bs.size - pos)
decreasing_by
  · -- pointer: the target is strictly below every position visited so far
    simp_wf
    apply Prod.Lex.left
    rename_i hoff _
    have hoff' : ¬ ptrOffset c c2 ≥ (if ls > pos then pos else ls) := hoff
    split at hoff' <;> omega
  · -- label: same minimum, strictly forward
    simp_wf
    have h1 := fetchByte_ok h
    have h3' := fetchLabel_ok h3
    have : min (if ls > pos then pos else ls) pos3 = min ls pos := by
      split <;> omega
    rw [this]
    apply Prod.Lex.right
    omega

/-- `ares_dns_name_parse(buf, &name, is_hostname)` started at the cursor -/
def parseNameRun (bs : Bytes) (isHost : Bool) (pos : Nat) : NameRun :=
  nameLoop bs isHost pos pos 0 [] 0 []

/-- as a reader step; `fail:` turns EBADRESP into EBADNAME -/
def parseName (bs : Bytes) (isHost : Bool) : P BStr := fun pos =>
  match (parseNameRun bs isHost pos).out with
  | .err .ebadresp => .err .ebadname
  | r => r

end Cares.Dns
