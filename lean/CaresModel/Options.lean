import CaresModel.Text.Resolv
/-
Model of channel configuration (C16): `ares_init_by_options` (mask normalisation), `ares_save_options`,
`init_by_defaults`, `ares_init_options`, `ares_sysconfig_apply` / `ares_init_by_sysconfig`, `ares_reinit`,
`ares_dup`, `ares_set_servers_ports_csv`, `ares_set_servers_ports`, `ares_set_sortlist`
(src/lib/ares_options.c, ares_init.c, ares_sysconfig.c, ares_update_servers.c).

The option mask is a record of Booleans (one per `ARES_OPT_*` bit) so that "the bit recorded when the user
set the field" can be reasoned about field by field; `extra` keeps unknown high bits for printing.
C integer conversions are explicit: `int` fields of `struct ares_options` are `Int`, channel fields are
`Nat`; `(int)x` is `toInt32`, `(unsigned int)i` is `toU32`.

The model follows the tree with the repairs F17, F30-C16 … F34-C16 (see notes/C16.md); `applyPinned`
keeps the pinned `use-vc` rule for the counterexample theorem.
-/
namespace Cares.Text

/-- `ARES_OPT_*` bits 0..23 -/
@[ext] structure Mask where
  flags : Bool := false          -- 0
  timeout : Bool := false        -- 1  (seconds; converted to timeoutms)
  tries : Bool := false          -- 2
  ndots : Bool := false          -- 3
  udpPort : Bool := false        -- 4
  tcpPort : Bool := false        -- 5
  servers : Bool := false        -- 6
  domains : Bool := false        -- 7
  lookups : Bool := false        -- 8
  sockStateCb : Bool := false    -- 9
  sortlist : Bool := false       -- 10
  sndbuf : Bool := false         -- 11
  rcvbuf : Bool := false         -- 12
  timeoutms : Bool := false      -- 13
  rotate : Bool := false         -- 14
  ednspsz : Bool := false        -- 15
  norotate : Bool := false       -- 16
  resolvconf : Bool := false     -- 17
  hostsFile : Bool := false      -- 18
  udpMaxQueries : Bool := false  -- 19
  maxtimeoutms : Bool := false   -- 20
  queryCache : Bool := false     -- 21
  eventThread : Bool := false    -- 22 (not modelled; never set by the generators)
  serverFailover : Bool := false -- 23
  extra : Nat := 0               -- bits 24.. (kept verbatim)
  deriving DecidableEq, Repr

/-- `struct ares_options` (the fields the model covers) -/
structure Options where
  flags : Int := 0
  timeout : Int := 0
  tries : Int := 0
  ndots : Int := 0
  udpPort : Nat := 0
  tcpPort : Nat := 0
  sndbuf : Int := 0
  rcvbuf : Int := 0
  servers : List (List Nat) := []     -- IPv4 addresses
  nservers : Int := 0
  domains : List Bytes := []
  ndomains : Int := 0
  lookups : Option Bytes := none
  sortlist : List Pat := []
  nsort : Int := 0
  ednspsz : Int := 0
  resolvPath : Option Bytes := none
  hostsPath : Option Bytes := none
  udpMaxQueries : Int := 0
  maxtimeout : Int := 0
  qcacheMaxTtl : Nat := 0
  retryChance : Nat := 0
  retryDelay : Nat := 0
  deriving DecidableEq, Repr

/-- configuration part of `struct ares_channeldata` -/
@[ext] structure Chan where
  flags : Nat := 0
  timeout : Nat := 0
  tries : Nat := 0
  ndots : Nat := 1
  maxtimeout : Nat := 0
  rotate : Bool := false
  udpPort : Nat := 0
  tcpPort : Nat := 0
  sndbuf : Int := 0
  rcvbuf : Int := 0
  domains : List Bytes := []
  sortlist : List Pat := []
  lookups : Option Bytes := none
  ednspsz : Nat := 0
  qcacheMaxTtl : Nat := 0
  optmask : Mask := {}
  servers : List Server := []
  resolvPath : Option Bytes := none
  hostsPath : Option Bytes := none
  udpMaxQueries : Nat := 0
  retryChance : Nat := 0
  retryDelay : Nat := 0
  deriving DecidableEq, Repr

def flagUsevc : Nat := 1
def flagPrimary : Nat := 2
def flagEdns : Nat := 256
def flagNoDfltSvr : Nat := 512

def hasFlag (flags bit : Nat) : Bool := flags / bit % 2 == 1
def orFlag (flags bit : Nat) : Nat := if hasFlag flags bit then flags else flags + bit

/-- everything outside the channel that initialisation reads -/
structure SysEnv where
  ifs : Ifaces := some []
  files : Bytes → Option Bytes := fun _ => none     -- path ↦ content (none = no such file)
  nsswitch : Option Bytes := none
  netsvc : Option Bytes := none
  svc : Option Bytes := none
  localdomain : Option Bytes := none
  resOptions : Option Bytes := none
  hostDomain : Option Bytes := none                 -- part of gethostname() after the first dot, if any

/-- "/etc/resolv.conf" -/
def pathResolvConf : Bytes := [47, 101, 116, 99, 47, 114, 101, 115, 111, 108, 118, 46, 99, 111, 110, 102]

def SysEnv.sysFiles (e : SysEnv) (resolvPath : Option Bytes) : SysFiles :=
  { resolv := e.files (resolvPath.getD pathResolvConf), nsswitch := e.nsswitch, netsvc := e.netsvc, svc := e.svc }

def v4Server (o : List Nat) : SConfig := { addr := .v4 o }

/-- `ares_servers_update(channel, list, user_specified)` on the channel -/
def Chan.updateServers (c : Chan) (l : List SConfig) (user : Bool) : Chan :=
  { c with servers := serversUpdate c.udpPort c.tcpPort (hasFlag c.flags flagPrimary) c.servers l,
           optmask := if user then { c.optmask with servers := true } else c.optmask }

/-- the option mask as `ares_init_by_options` leaves it in `channel->optmask`: bits whose value is
    rejected (non-positive numbers, NULL strings, no servers) are cleared, `ARES_OPT_TIMEOUT` is converted
    to `ARES_OPT_TIMEOUTMS`, the query cache bit is always set -/
def normMask (o : Options) (m : Mask) : Mask :=
  { m with
    timeout := false,
    timeoutms := (m.timeoutms || m.timeout) && o.timeout > 0,
    tries := m.tries && o.tries > 0,
    ndots := m.ndots && o.ndots ≥ 0,
    maxtimeoutms := m.maxtimeoutms && o.maxtimeout > 0,
    sndbuf := m.sndbuf && o.sndbuf > 0,
    rcvbuf := m.rcvbuf && o.rcvbuf > 0,
    ednspsz := m.ednspsz && o.ednspsz > 0,
    lookups := m.lookups && o.lookups.isSome,
    resolvconf := m.resolvconf && o.resolvPath.isSome,
    hostsFile := m.hostsFile && o.hostsPath.isSome,
    udpMaxQueries := m.udpMaxQueries && o.udpMaxQueries > 0,
    queryCache := true,
    servers := m.servers && o.nservers > 0 }

/-- seconds → milliseconds of `ARES_OPT_TIMEOUT`, saturating at INT_MAX (repaired tree) -/
def secToMs (t : Int) : Nat := if t > 2147483647 / 1000 then 2147483647 else t.toNat * 1000

/-- `ares_init_by_options(channel, options, optmask)` for `options != NULL`.  Every field is written by
    exactly one step of the C function, so the result is given field by field; the server list (the
    last step that reads other fields) uses the flags and default ports stored before it. -/
def applyOptions (c : Chan) (o : Options) (m : Mask) : Chan :=
    let nm := normMask o m
    let c1 : Chan :=
      { c with
        flags := if m.flags then toU32 o.flags else c.flags,
        timeout := if m.timeoutms then (if o.timeout > 0 then o.timeout.toNat else c.timeout)
                   else if m.timeout && o.timeout > 0 then secToMs o.timeout else c.timeout,
        tries := if nm.tries then o.tries.toNat else c.tries,
        ndots := if nm.ndots then o.ndots.toNat else c.ndots,
        maxtimeout := if nm.maxtimeoutms then o.maxtimeout.toNat else c.maxtimeout,
        rotate := if m.norotate then false else if m.rotate then true else c.rotate,
        udpPort := if m.udpPort then o.udpPort else c.udpPort,
        tcpPort := if m.tcpPort then o.tcpPort else c.tcpPort,
        sndbuf := if nm.sndbuf then o.sndbuf else c.sndbuf,
        rcvbuf := if nm.rcvbuf then o.rcvbuf else c.rcvbuf,
        ednspsz := if nm.ednspsz then o.ednspsz.toNat else c.ednspsz,
        domains := if m.domains && o.ndomains > 0 then o.domains else c.domains,
        lookups := if nm.lookups then o.lookups else c.lookups,
        sortlist := if m.sortlist && o.nsort > 0 then o.sortlist else c.sortlist,
        resolvPath := if nm.resolvconf then o.resolvPath else c.resolvPath,
        hostsPath := if nm.hostsFile then o.hostsPath else c.hostsPath,
        udpMaxQueries := if nm.udpMaxQueries then o.udpMaxQueries.toNat else c.udpMaxQueries,
        qcacheMaxTtl := if m.queryCache then o.qcacheMaxTtl else 3600,
        retryChance := if m.serverFailover then o.retryChance else c.retryChance,
        retryDelay := if m.serverFailover then o.retryDelay else c.retryDelay,
        optmask := nm }
    if nm.servers then
      { c1 with servers := serversUpdate c1.udpPort c1.tcpPort (hasFlag c1.flags flagPrimary) c1.servers (o.servers.map v4Server) }
    else c1

/-- `ares_init_by_options(channel, options, optmask)` -/
def initByOptions (c : Chan) (opts : Option Options) (m : Mask) : Except Status Chan :=
  match opts with
  | none => if m != {} then .error .enodata else .ok { c with qcacheMaxTtl := 3600, optmask := { queryCache := true } }
  | some o => .ok (applyOptions c o m)

/-- `ares_sysconfig_apply(channel, sysconfig)`: every field guarded by the bit recorded when the user set it.
    `fixed = false` is the pinned `use-vc` rule (F17). -/
def sysconfigApplyG (fixed : Bool) (c : Chan) (s : SysConfig) : Chan :=
  { c with
    servers := match s.sconfig with
      | some l => if !c.optmask.servers then serversUpdate c.udpPort c.tcpPort (hasFlag c.flags flagPrimary) c.servers l
                  else c.servers
      | none => c.servers,
    domains := match s.domains with
      | some d => if !c.optmask.domains then d else c.domains
      | none => c.domains,
    lookups := match s.lookups with
      | some l => if !c.optmask.lookups then some l else c.lookups
      | none => c.lookups,
    sortlist := if !s.sortlist.isEmpty && !c.optmask.sortlist then s.sortlist else c.sortlist,
    ndots := if !c.optmask.ndots then s.ndots else c.ndots,
    tries := if s.tries != 0 && !c.optmask.tries then s.tries else c.tries,
    timeout := if s.timeoutMs != 0 && !c.optmask.timeoutms then s.timeoutMs else c.timeout,
    rotate := if !(c.optmask.rotate || c.optmask.norotate) then s.rotate else c.rotate,
    flags := if s.usevc && (!fixed || !c.optmask.flags) then orFlag c.flags flagUsevc else c.flags }

def sysconfigApply (c : Chan) (s : SysConfig) : Chan := sysconfigApplyG true c s

/-- what the system configuration sources yield (`none`: reading failed, nothing is applied) -/
def readSysconfig (e : SysEnv) (resolvPath : Option Bytes) : Option SysConfig :=
  let r := initSysconfigFiles true e.ifs { ndots := 1 } (e.sysFiles resolvPath) true
  if r.1 != .success then none
  else
    let r2 := initByEnvironment r.2 e.localdomain e.resOptions
    if r2.1 != .success then none else some r2.2

/-- `ares_init_by_sysconfig(channel)` (its status is ignored by both callers) -/
def initBySysconfig (c : Chan) (e : SysEnv) : Chan :=
  match readSysconfig e c.resolvPath with
  | none => c
  | some s => sysconfigApply c s

def defaultFlags (c : Chan) : Nat := if !c.optmask.flags then orFlag c.flags flagEdns else c.flags

/-- `init_by_defaults` refuses a channel without servers when `ARES_FLAG_NO_DFLT_SVR` is set -/
def defaultsFail (c : Chan) : Bool := c.servers.isEmpty && hasFlag (defaultFlags c) flagNoDfltSvr

/-- the channel `init_by_defaults` leaves behind when it succeeds -/
def applyDefaults (c : Chan) (e : SysEnv) : Chan :=
  let flags := defaultFlags c
  { c with
      flags := flags,
      ednspsz := if c.ednspsz = 0 then 1232 else c.ednspsz,
      timeout := if c.timeout = 0 then 2000 else c.timeout,
      tries := if c.tries = 0 then 3 else c.tries,
      servers := if c.servers.isEmpty then
                   serversUpdate c.udpPort c.tcpPort (hasFlag flags flagPrimary) [] [v4Server [127, 0, 0, 1]]
                 else c.servers,
      domains := if c.domains.isEmpty then
                   (match e.hostDomain with
                    | some d => [d]
                    | none => c.domains)
                 else c.domains,
      lookups := if c.lookups.isNone then some [102, 98] else c.lookups,
      retryChance := if !c.optmask.serverFailover then 10 else c.retryChance,
      retryDelay := if !c.optmask.serverFailover then 5000 else c.retryDelay }

/-- `init_by_defaults(channel)` -/
def initByDefaults (c : Chan) (e : SysEnv) : Except Status Chan :=
  if defaultsFail c then .error .enoserver else .ok (applyDefaults c e)

/-- `ares_init_options(&channel, options, optmask)` -/
def initOptions (e : SysEnv) (opts : Option Options) (m : Mask) : Except Status Chan :=
  match initByOptions { ndots := 1 } opts m with
  | .error st => .error st
  | .ok c => initByDefaults (initBySysconfig c e) e

/-- `ares_reinit(channel)` (after the reload thread has finished) -/
def reinit (c : Chan) (e : SysEnv) : Chan := initBySysconfig c e

/-- the IPv4 address of a server, if it has one (`ares_save_opt_servers`) -/
def v4of (s : Server) : Option (List Nat) :=
  match s.addr with
  | .v4 o => some o
  | .v6 _ => none

/-- the fields `ares_save_options` writes (those under the channel's mask; the rest is left alone, here 0) -/
def savedOptions (c : Chan) : Options :=
  let m := c.optmask
  let v4s := c.servers.filterMap v4of
  { flags := if m.flags then toInt32 c.flags else 0,
    timeout := if m.timeoutms then toInt32 c.timeout else 0,
    tries := if m.tries then toInt32 c.tries else 0,
    ndots := if m.ndots then toInt32 c.ndots else 0,
    maxtimeout := if m.maxtimeoutms then toInt32 c.maxtimeout else 0,
    udpPort := if m.udpPort then c.udpPort else 0,
    tcpPort := if m.tcpPort then c.tcpPort else 0,
    servers := if m.servers then v4s else [],
    nservers := if m.servers then v4s.length else 0,
    domains := if m.domains then c.domains else [],
    ndomains := if m.domains then c.domains.length else 0,
    lookups := if m.lookups then c.lookups else none,
    sortlist := if m.sortlist then c.sortlist else [],
    nsort := if m.sortlist then c.sortlist.length else 0,
    resolvPath := if m.resolvconf then c.resolvPath else none,
    hostsPath := if m.hostsFile then c.hostsPath else none,
    sndbuf := if m.sndbuf && c.sndbuf > 0 then c.sndbuf else 0,
    rcvbuf := if m.rcvbuf && c.rcvbuf > 0 then c.rcvbuf else 0,
    ednspsz := if m.ednspsz then toInt32 c.ednspsz else 0,
    udpMaxQueries := if m.udpMaxQueries then toInt32 c.udpMaxQueries else 0,
    qcacheMaxTtl := if m.queryCache then c.qcacheMaxTtl else 0,
    retryChance := if m.serverFailover then c.retryChance else 0,
    retryDelay := if m.serverFailover then c.retryDelay else 0 }

/-- `ARES_CONFIG_CHECK(channel)` -/
def configCheck (c : Chan) : Bool := c.lookups.isSome && !c.servers.isEmpty && c.timeout != 0 && c.tries != 0

/-- `ares_save_options(channel, &options, &optmask)` -/
def saveOptions (c : Chan) : Except Status (Options × Mask) :=
  if !configCheck c then .error .enodata else .ok (savedOptions c, c.optmask)

/-- `set_servers_csv(channel, csv)` (`ares_set_servers_csv` / `ares_set_servers_ports_csv`) -/
def setServersCsv (c : Chan) (ifs : Ifaces) (csv : Bytes) : Status × Chan :=
  if csv.isEmpty then (.success, c.updateServers [] true)
  else
    let r := appendFromStr ifs none csv false
    if r.1 != .success then (r.1, c) else (.success, c.updateServers (r.2.getD []) true)

/-- `ares_get_servers_csv(channel)` -/
def getServersCsv (c : Chan) : Option Bytes := serversCsv c.servers

/-- `ares_set_sortlist(channel, sortstr)` -/
def setSortlist (c : Chan) (str : Bytes) : Status × Chan :=
  let r := parseSortlist str
  if r.1 == .success && !r.2.isEmpty then
    (r.1, { c with sortlist := r.2, optmask := { c.optmask with sortlist := true } })
  else (r.1, c)

/-- `ares_set_servers_ports(channel, list)`; entries are (address, udp port, tcp port) -/
def setServersPorts (c : Chan) (l : List (Addr × Nat × Nat)) : Chan :=
  c.updateServers (l.map (fun x => { addr := x.1, udp := x.2.1 % 65536, tcp := x.2.2 % 65536 })) true

/-- `ares_dup(&dest, src)`: options, then servers via the CSV form when the application set them -/
def dup (src : Chan) (e : SysEnv) : Except Status Chan :=
  match saveOptions src with
  | .error st => .error st
  | .ok (o, m) =>
    match initOptions e (some o) m with
    | .error st => .error st
    | .ok d =>
      if m.servers then
        match getServersCsv src with
        | none => .error .enomem
        | some csv =>
          let r := setServersCsv d e.ifs csv
          if r.1 != .success then .error r.1 else .ok r.2
      else .ok d

end Cares.Text
