import CaresModel.Legacy.Basic
/-
Pure parts of the address lookups (C13) and of the A/AAAA legacy parsers (C18):

  ares_parse_into_addrinfo.c   `parseIntoAddrinfo`   class filter, CNAME chain, A/AAAA nodes, ENODATA rule
  ares_addrinfo2hostent.c      `addrinfo2hostent`, `addrinfo2addrttl`
  ares_addrinfo_localhost.c    `addrinfoLocalhost`   (non-Windows: ares_system_loopback_addrs = ENOTFOUND)
  ares_getaddrinfo.c           `fakeAddrinfo`        (literal addresses; inet_pton results are inputs)
  ares_sortaddrinfo.c          `relink`              (array after qsort -> linked list), `walk`
  ares_gethostbyname.c         `sortAddresses`       (sortlist insertion sort), `addressIndex`
  ares_update_servers.c        `subnetMatch`
  record/ares_dns_record.c     `addrToPtr`           (ares_dns_addr_to_ptr)
  legacy/ares_parse_ptr_reply.c `parsePtrReply`      (ares_parse_ptr_reply_dnsrec)

`parsePtrName` is *not* c-ares code: it is the reading of a reverse-map name according to
RFC 1035 §3.5 / RFC 3596 §2.5 and serves as the specification `addrToPtr` is proved against.
-/
namespace Cares.AddrInfo
open Cares.Legacy

/-- `struct ares_addrinfo_node` (family, address bytes, port in host order, `ai_ttl`) -/
structure AddrNode where
  family : Nat
  addr   : Bytes
  port   : Nat
  ttl    : Int
  deriving Repr, DecidableEq, Inhabited

/-- `struct ares_addrinfo_cname` -/
structure CnameNode where
  ttl   : Int
  alias : Option Bytes
  name  : Option Bytes
  deriving Repr, DecidableEq, Inhabited

/-- `struct ares_addrinfo` -/
structure AddrInfo where
  cnames : List CnameNode := []
  nodes  : List AddrNode := []
  name   : Option Bytes := none
  deriving Repr, DecidableEq, Inhabited

/-! ## ares_parse_into_addrinfo -/

/-- the local variables of the answer loop -/
structure PState where
  hostname : Bytes
  gotA     : Bool := false
  gotAaaa  : Bool := false
  gotCname : Bool := false
  cnames   : List CnameNode := []
  nodes    : List AddrNode := []
  deriving Repr, DecidableEq

/-- one iteration of `for (i = 0; i < ancount; i++)` -/
def pStep (port : Nat) (s : PState) (rr : RR) : PState :=
  if rr.cls ≠ clsIN then s
  else match rr.data with
    | .cname c =>
      { s with gotCname := true, hostname := c,
               cnames := s.cnames ++ [{ ttl := toI32 rr.ttl, alias := some rr.name, name := some c }] }
    | .a addr =>
      { s with gotA := true,
               nodes := s.nodes ++ [{ family := afINET, addr := addr, port := port, ttl := toI32 rr.ttl }] }
    | .aaaa addr =>
      { s with gotAaaa := true,
               nodes := s.nodes ++ [{ family := afINET6, addr := addr, port := port, ttl := toI32 rr.ttl }] }
    | _ => s

def pLoop (port : Nat) (s : PState) (l : List RR) : PState := l.foldl (pStep port) s

/-- `ares_parse_into_addrinfo(dnsrec, cname_only_is_enodata, port, ai)`; allocation succeeds -/
def parseIntoAddrinfo (r : LRec) (cnameOnlyIsEnodata : Bool) (port : Nat) (ai : AddrInfo) :
    Status × AddrInfo :=
  match r.queryName with
  | .error e => (e.compat, ai)
  | .ok hostname =>
    if r.answers.isEmpty then (.enodata, ai)
    else
      let s := pLoop port { hostname := hostname } r.answers
      if !s.gotA && !s.gotAaaa && (!s.gotCname || (s.gotCname && cnameOnlyIsEnodata)) then
        (.enodata, ai)
      else
        let name := match ai.name with
          | none => some s.hostname
          | some n => if strCaseEq n s.hostname then some n else some s.hostname
        let nodes := if s.gotA || s.gotAaaa then ai.nodes ++ s.nodes else ai.nodes
        let cnames := if s.gotCname then ai.cnames ++ s.cnames else ai.cnames
        (.success, { cnames := cnames, nodes := nodes, name := name })

/-- what the channel simulator imports: nodes and cnames one accepted answer contributes -/
def addrinfoOfAnswer (r : LRec) (port : Nat) (cnameOnlyIsEnodata : Bool := false) :
    Except Status (List AddrNode × List CnameNode) :=
  match parseIntoAddrinfo r cnameOnlyIsEnodata port {} with
  | (.success, ai) => .ok (ai.nodes, ai.cnames)
  | (st, _) => .error st

/-! ## ares_addrinfo2hostent / ares_addrinfo2addrttl -/

def addrLen (family : Nat) : Nat := if family = afINET then 4 else 16

/-- `ares_addrinfo2hostent(ai, family, &host)` with `*host == NULL` on entry -/
def addrinfo2hostent (ai : AddrInfo) (family : Nat) : Status × Option Hostent :=
  let family :=
    -- AF_UNSPEC: the family of the first node, if there is one
    if family = afUNSPEC then (ai.nodes.head?.map (·.family)).getD family else family
  if family ≠ afINET ∧ family ≠ afINET6 then (.ebadquery, none)
  else
    -- the canonical name is the target of the last alias in the chain (fix F30-C18; the pinned code
    -- took the first CNAME's target)
    let hname := (ai.cnames.getLast?.map (·.name)).getD ai.name
    let naliases := ai.cnames.length
    let aliases := ai.cnames.filterMap (·.alias)
    let addrs := (ai.nodes.filter (·.family = family)).map (·.addr)
    if addrs.length = 0 ∧ naliases = 0 then (.enodata, none)
    else (.success, some { name := hname, aliases := aliases, addrtype := family,
                           length := addrLen family, addrs := addrs })

/-- minimum of the CNAME TTLs, starting from INT_MAX -/
def cnameTtl (cnames : List CnameNode) : Int :=
  cnames.foldl (fun m c => if c.ttl < m then c.ttl else m) intMax

/-- the node loop of `ares_addrinfo2addrttl` (`acc` = entries written so far) -/
def ttlLoop (family req : Nat) (cttl : Int) : List AddrNode → List (Bytes × Int) → List (Bytes × Int)
  | [], acc => acc
  | n :: rest, acc =>
    if n.family ≠ family then ttlLoop family req cttl rest acc
    else if acc.length ≥ req then acc
    else ttlLoop family req cttl rest (acc ++ [(n.addr, if n.ttl > cttl then cttl else n.ttl)])

/-- `ares_addrinfo2addrttl(ai, family, req_naddrttls, addrttls, addr6ttls, &naddrttls)` with the
    matching array non-NULL -/
def addrinfo2addrttl (ai : AddrInfo) (family req : Nat) : Status × List (Bytes × Int) :=
  if family ≠ afINET ∧ family ≠ afINET6 then (.ebadquery, [])
  else if req = 0 then (.ebadquery, [])
  else (.success, ttlLoop family req (cnameTtl ai.cnames) ai.nodes [])

/-! ## ares_addrinfo_localhost, fake_addrinfo -/

def loopback6 : Bytes := [0, 0, 0, 0, 0, 0, 0, 0, 0, 0, 0, 0, 0, 0, 0, 1]
def loopback4 : Bytes := [127, 0, 0, 1]

def hasFamily (af : Nat) (nodes : List AddrNode) : Bool := nodes.any (·.family = af)

/-- `ares_addrinfo_localhost(name, port, hints, ai)` on platforms without a loopback table -/
def addrinfoLocalhost (name : Bytes) (port family : Nat) (ai : AddrInfo) : Status × AddrInfo :=
  if family ≠ afINET ∧ family ≠ afINET6 ∧ family ≠ afUNSPEC then (.ebadfamily, ai)
  else
    let ai := { ai with name := some name }
    let nodes := ai.nodes
    let nodes := if (family = afUNSPEC ∨ family = afINET6) ∧ !hasFamily afINET6 nodes
      then nodes ++ [{ family := afINET6, addr := loopback6, port := port, ttl := 0 }] else nodes
    let nodes := if (family = afUNSPEC ∨ family = afINET) ∧ !hasFamily afINET nodes
      then nodes ++ [{ family := afINET, addr := loopback4, port := port, ttl := 0 }] else nodes
    (.success, { ai with nodes := nodes })

def aiCanonname : Nat := 1  -- ARES_AI_CANONNAME = 1 << 0

def isDigit (c : UInt8) : Bool := 48 ≤ c ∧ c ≤ 57

/-- "it only looks like an IP address if it's all numbers and dots" + exactly three dots -/
def looksV4 (name : Bytes) : Bool :=
  name.all (fun c => isDigit c || c == 46) && (name.filter (· == 46)).length == 3

/-- `fake_addrinfo(name, port, hints, ai, …)`; `pton4`/`pton6` are what `ares_inet_pton` answers for
    `name` (an input: inet_pton itself belongs to the text models).  `none` = "not a literal"
    (the function returns ARES_FALSE and the lookup proceeds). `flags` bit 0 = ARES_AI_CANONNAME. -/
def fakeAddrinfo (name : Bytes) (port family flags : Nat) (pton4 pton6 : Option Bytes) (ai : AddrInfo) :
    Option AddrInfo :=
  let r4 : Option AddrNode :=
    if family = afINET ∨ family = afINET6 ∨ family = afUNSPEC then
      if looksV4 name then pton4.map (fun a => { family := afINET, addr := a, port := port, ttl := 0 })
      else none
    else none
  let r : Option AddrNode :=
    match r4 with
    | some n => some n
    | none =>
      if family = afINET6 ∨ family = afUNSPEC then
        pton6.map (fun a => { family := afINET6, addr := a, port := port, ttl := 0 })
      else none
  match r with
  | none => none
  | some n =>
    let cnames := if flags / aiCanonname % 2 = 1
      then ai.cnames ++ [{ ttl := 0, alias := none, name := some name }] else ai.cnames
    some { ai with nodes := ai.nodes ++ [n], cnames := cnames }

/-! ## ares_sortaddrinfo: the relink step

The list is a store of `next` pointers indexed by node id.  `elems` is the array after `qsort`
(node ids).  The code writes `sentinel.next = elems[0]`, `elems[i].next = elems[i+1]` for
`i < nelem-1` and `elems[nelem-1].next = NULL`; the result is read by walking from the sentinel. -/

abbrev Links := List (Option Nat)   -- next pointer of node i

def setNext (l : Links) (i : Nat) (v : Option Nat) : Links := l.set i v

/-- `for (i = 0; i < nelem - 1; ++i) elems[i].ai->ai_next = elems[i + 1].ai;` then NULL for the last -/
def relinkLoop : List Nat → Links → Links
  | [], l => l
  | [e], l => setNext l e none
  | e :: e' :: rest, l => relinkLoop (e' :: rest) (setNext l e (some e'))

/-- returns (head, links) -/
def relink (elems : List Nat) (l : Links) : Option Nat × Links :=
  (elems.head?, relinkLoop elems l)

/-- follow `ai_next` from `head` for at most `fuel` nodes -/
def walk (l : Links) : Nat → Option Nat → List Nat
  | 0, _ => []
  | _, none => []
  | fuel + 1, some i => i :: walk l fuel (l.getD i none)


/-! ## ares_sortaddrinfo: the RFC 6724 comparator and the whole function

`find_src_addr` is scripted: for every node the caller says whether a source address exists
(`SrcSpec`).  `qsort` is trusted to return *some* permutation; `sortAddrinfoWith` takes that permutation as
an argument, `sortAddrinfo` uses the insertion sort `isort` (any sort gives the same result whenever the
comparator is a strict total order on the input, which `cmpConsistent` checks). -/

inductive SrcSpec where
  | noSrc                               -- socket(): EAFNOSUPPORT, or connect() failed: has_src_addr = 0
  | src (family : Nat) (addr : Bytes)   -- getsockname() answered
  | fatal                               -- any other failure: find_src_addr = -1
  deriving Repr, DecidableEq, Inhabited

structure SortElem where
  node   : AddrNode
  hasSrc : Bool
  srcFam : Nat
  src    : Bytes
  order  : Nat
  deriving Repr, DecidableEq, Inhabited

def b (a : Bytes) (i : Nat) : Nat := (a.getD i 0).toNat

def allZero (a : Bytes) (lo hi : Nat) : Bool := (List.range (hi - lo)).all (fun i => b a (lo + i) == 0)

def in6Loopback (a : Bytes) : Bool := allZero a 0 15 && b a 15 == 1
def in6Multicast (a : Bytes) : Bool := b a 0 == 255
def in6LinkLocal (a : Bytes) : Bool := b a 0 == 254 && b a 1 / 64 == 2      -- fe80::/10
def in6SiteLocal (a : Bytes) : Bool := b a 0 == 254 && b a 1 / 64 == 3      -- fec0::/10
def in6V4Mapped (a : Bytes) : Bool := allZero a 0 10 && b a 10 == 255 && b a 11 == 255
def in6V4Compat (a : Bytes) : Bool :=
  allZero a 0 12 && (b a 12 * 16777216 + b a 13 * 65536 + b a 14 * 256 + b a 15 > 1)
def in6Is6to4 (a : Bytes) : Bool := b a 0 == 32 && b a 1 == 2
def in6Teredo (a : Bytes) : Bool := b a 0 == 32 && b a 1 == 1 && b a 2 == 0 && b a 3 == 0
def in6Ula (a : Bytes) : Bool := b a 0 / 2 == 126                            -- (x & 0xfe) == 0xfc
def in6Is6bone (a : Bytes) : Bool := b a 0 == 63 && b a 1 == 254

/-- `get_scope` -/
def getScope (family : Nat) (a : Bytes) : Int :=
  if family = afINET6 then
    if in6Multicast a then ((b a 1 % 16 : Nat) : Int)
    else if in6Loopback a || in6LinkLocal a then 2
    else if in6SiteLocal a then 5
    else 14
  else if family = afINET then
    if b a 0 == 127 || (b a 0 == 169 && b a 1 == 254) then 2 else 14
  else 1

/-- `get_label` -/
def getLabel (family : Nat) (a : Bytes) : Int :=
  if family = afINET then 4
  else if family = afINET6 then
    if in6Loopback a then 0
    else if in6V4Mapped a then 4
    else if in6Is6to4 a then 2
    else if in6Teredo a then 5
    else if in6Ula a then 13
    else if in6V4Compat a then 3
    else if in6SiteLocal a then 11
    else if in6Is6bone a then 12
    else 1
  else 1

/-- `get_precedence` -/
def getPrecedence (family : Nat) (a : Bytes) : Int :=
  if family = afINET then 35
  else if family = afINET6 then
    if in6Loopback a then 50
    else if in6V4Mapped a then 35
    else if in6Is6to4 a then 30
    else if in6Teredo a then 5
    else if in6Ula a then 3
    else if in6V4Compat a || in6SiteLocal a || in6Is6bone a then 1
    else 40
  else 1

/-- leading equal bits of two bytes that differ (8 when equal) -/
def byteCommon (x y : Nat) : Nat :=
  ((List.range 8).takeWhile (fun j => x / 2 ^ (7 - j) = y / 2 ^ (7 - j))).length

/-- `common_prefix_len` over 16 bytes -/
def commonPrefixLen (a1 a2 : Bytes) : Nat :=
  let rec go : Nat → Nat → Nat
    | 0, i => i * 8
    | fuel + 1, i =>
      if i ≥ 16 then 128
      else if b a1 i = b a2 i then go fuel (i + 1)
      else i * 8 + byteCommon (b a1 i) (b a2 i)
  go 17 0

def boolInt (x : Bool) : Int := if x then 1 else 0

/-- `rfc6724_compare(a1, a2)` -/
def rfc6724Compare (a1 a2 : SortElem) : Int :=
  if a1.hasSrc ≠ a2.hasSrc then boolInt a2.hasSrc - boolInt a1.hasSrc
  else
    let scopeSrc1 : Int := if a1.hasSrc then getScope a1.srcFam a1.src else 1
    let scopeDst1 := getScope a1.node.family a1.node.addr
    let scopeMatch1 := scopeSrc1 == scopeDst1
    let scopeSrc2 : Int := if a2.hasSrc then getScope a2.srcFam a2.src else 1
    let scopeDst2 := getScope a2.node.family a2.node.addr
    let scopeMatch2 := scopeSrc2 == scopeDst2
    if scopeMatch1 ≠ scopeMatch2 then boolInt scopeMatch2 - boolInt scopeMatch1
    else
      let labelSrc1 : Int := if a1.hasSrc then getLabel a1.srcFam a1.src else 1
      let labelMatch1 := labelSrc1 == getLabel a1.node.family a1.node.addr
      let labelSrc2 : Int := if a2.hasSrc then getLabel a2.srcFam a2.src else 1
      let labelMatch2 := labelSrc2 == getLabel a2.node.family a2.node.addr
      if labelMatch1 ≠ labelMatch2 then boolInt labelMatch2 - boolInt labelMatch1
      else
        let p1 := getPrecedence a1.node.family a1.node.addr
        let p2 := getPrecedence a2.node.family a2.node.addr
        if p1 ≠ p2 then p2 - p1
        else if scopeDst1 ≠ scopeDst2 then scopeDst1 - scopeDst2
        else
          let r9 : Option Int :=
            if a1.hasSrc ∧ a1.node.family = afINET6 ∧ a2.hasSrc ∧ a2.node.family = afINET6 then
              let l1 := commonPrefixLen a1.src a1.node.addr
              let l2 := commonPrefixLen a2.src a2.node.addr
              if l1 ≠ l2 then some ((l2 : Int) - (l1 : Int)) else none
            else none
          match r9 with
          | some v => v
          | none => (a1.order : Int) - (a2.order : Int)

/-- the array built before `qsort`; `none` when some `find_src_addr` is fatal -/
def mkElems : List AddrNode → List SrcSpec → Nat → Option (List SortElem)
  | [], _, _ => some []
  | n :: ns, specs, i =>
    let spec := specs.headD .fatal
    match spec with
    | .fatal => none
    | .noSrc => (mkElems ns specs.tail (i + 1)).map
        (fun r => { node := n, hasSrc := false, srcFam := 0, src := [], order := i } :: r)
    | .src f a => (mkElems ns specs.tail (i + 1)).map
        (fun r => { node := n, hasSrc := true, srcFam := f, src := a, order := i } :: r)

def insertBy (cmp : SortElem → SortElem → Int) (x : SortElem) : List SortElem → List SortElem
  | [] => [x]
  | y :: ys => if cmp x y < 0 then x :: y :: ys else y :: insertBy cmp x ys

def isort (cmp : SortElem → SortElem → Int) (l : List SortElem) : List SortElem :=
  l.foldr (insertBy cmp) []

/-- every earlier element compares below every later one: then the comparator is a strict total
    order on this input and every correct sort returns this very list -/
def cmpConsistent (cmp : SortElem → SortElem → Int) : List SortElem → Bool
  | [] => true
  | x :: rest => rest.all (fun y => cmp x y < 0 && cmp y x > 0) && cmpConsistent cmp rest

/-- `ares_sortaddrinfo` given the permutation `perm` (positions into the element array) `qsort` produced -/
def sortAddrinfoWith (nodes : List AddrNode) (specs : List SrcSpec) (perm : List Nat) : Status × List AddrNode :=
  if nodes.isEmpty then (.enodata, nodes)
  else match mkElems nodes specs 0 with
    | none => (.enotfound, nodes)
    | some _ =>
      -- relink: node ids are the positions in the original list
      let (head, links) := relink perm (List.replicate nodes.length none)
      (.success, (walk links nodes.length head).filterMap (fun i => nodes[i]?))

/-- with the insertion sort standing in for `qsort` -/
def sortAddrinfo (nodes : List AddrNode) (specs : List SrcSpec) : Status × List AddrNode × Bool :=
  match mkElems nodes specs 0 with
  | none => if nodes.isEmpty then (.enodata, nodes, true) else (.enotfound, nodes, true)
  | some elems =>
    let sorted := isort rfc6724Compare elems
    let (st, out) := sortAddrinfoWith nodes specs (sorted.map (·.order))
    (st, out, cmpConsistent rfc6724Compare sorted)

/-! ## ares_gethostbyname: sortlist insertion sort -/

structure Pattern where
  family : Nat
  addr   : Bytes
  mask   : Nat
  deriving Repr, DecidableEq

def byteAt (b : Bytes) (i : Nat) : UInt8 := b.getD i 0

/-- the byte loop of `ares_subnet_match` -/
def subnetLoop (a s : Bytes) (len : Nat) : Nat → Nat → Nat → Bool
  | 0, _, _ => true
  | fuel + 1, i, netmask =>
    if i < len ∧ netmask > 0 then
      let mask : UInt8 := if netmask < 8 then (255 : UInt8) <<< (UInt8.ofNat (8 - netmask)) else 255
      let netmask' := if netmask < 8 then 0 else netmask - 8
      if (byteAt a i &&& mask) ≠ (byteAt s i &&& mask) then false
      else subnetLoop a s len fuel (i + 1) netmask'
    else true

/-- `ares_subnet_match(addr, subnet, netmask)` -/
def subnetMatch (family : Nat) (addr : Bytes) (p : Pattern) : Bool :=
  if family ≠ p.family then false
  else if family = afINET then
    if p.mask > 32 then false else subnetLoop addr p.addr 4 5 0 p.mask
  else if family = afINET6 then
    if p.mask > 128 then false else subnetLoop addr p.addr 16 17 0 p.mask
  else false

/-- `get_address_index` / `get6_address_index`: first matching sortlist entry, `nsort` if none -/
def addressIndexFrom (family : Nat) (addr : Bytes) : List Pattern → Nat → Nat
  | [], i => i
  | p :: rest, i =>
    if p.family ≠ family then addressIndexFrom family addr rest (i + 1)
    else if subnetMatch family addr p then i
    else addressIndexFrom family addr rest (i + 1)

def addressIndex (family : Nat) (sortlist : List Pattern) (addr : Bytes) : Nat :=
  addressIndexFrom family addr sortlist 0

/-- inner loop: `for (i2 = i1 - 1; i2 >= 0; i2--) { if (ind(l[i2]) <= ind1) break; l[i2+1] = l[i2]; }`
    with `k = i2 + 1`; returns the final `k` and the shifted array -/
def shiftLoop {α : Type} (ind : α → Nat) (ind1 : Nat) : Nat → List α → Nat × List α
  | 0, l => (0, l)
  | k + 1, l =>
    match l[k]? with
    | none => (k + 1, l)
    | some a2 =>
      if ind a2 ≤ ind1 then (k + 1, l)
      else shiftLoop ind ind1 k (l.set (k + 1) a2)

/-- one iteration of the outer loop at index `i1` -/
def sortStep {α : Type} (ind : α → Nat) (l : List α) (i1 : Nat) : List α :=
  match l[i1]? with
  | none => l
  | some a1 =>
    let (k, l') := shiftLoop ind (ind a1) i1 l
    l'.set k a1

/-- `sort_addresses` / `sort6_addresses`: `for (i1 = 0; host->h_addr_list[i1]; i1++)` -/
def sortAddresses {α : Type} (ind : α → Nat) (l : List α) : List α :=
  (List.range l.length).foldl (sortStep ind) l

/-- the sorting step of `ares_gethostbyname_callback` -/
def sortHostent (sortlist : List Pattern) (h : Hostent) : Hostent :=
  if sortlist.isEmpty then h
  else if h.addrtype = afINET6 ∨ h.addrtype = afINET then
    { h with addrs := sortAddresses (addressIndex h.addrtype sortlist) h.addrs }
  else h

/-! ## ares_dns_addr_to_ptr -/

/-- `ares_count_digits` (a `size_t` has at most 20 digits) -/
def countDigitsAux : Nat → Nat → Nat
  | 0, _ => 1
  | fuel + 1, n => if n < 10 then 1 else 1 + countDigitsAux fuel (n / 10)

def countDigits (n : Nat) : Nat := countDigitsAux 20 n

/-- the digit loop of `ares_buf_append_num_dec(buf, num, len)` -/
def numDecLoop (num : Nat) : Nat → Bytes
  | 0 => []
  | k + 1 => UInt8.ofNat (48 + (num % 10 ^ (k + 1)) / 10 ^ k) :: numDecLoop num k

def numDec (num : Nat) : Bytes := numDecLoop num (countDigits num)

def hexDigit (n : Nat) : UInt8 :=
  if n < 10 then UInt8.ofNat (48 + n) else UInt8.ofNat (87 + n)   -- "0123456789abcdef"

def inAddrArpa : Bytes := [105, 110, 45, 97, 100, 100, 114, 46, 97, 114, 112, 97]   -- "in-addr.arpa"
def ip6Arpa : Bytes := [105, 112, 54, 46, 97, 114, 112, 97]                          -- "ip6.arpa"

/-- the loop `for (i = ptr_len; i > 0; i--)` over the address bytes, last byte first -/
def ptrLoop (family : Nat) : List UInt8 → Bytes → Bytes
  | [], buf => buf
  | b :: rest, buf =>
    if family = afINET then ptrLoop family rest (buf ++ numDec b.toNat ++ [46])
    else ptrLoop family rest (buf ++ [hexDigit (b.toNat % 16), 46, hexDigit (b.toNat / 16 % 16), 46])

/-- `ares_dns_addr_to_ptr(addr)`; `addr` has 4 (AF_INET) or 16 (AF_INET6) bytes -/
def addrToPtr (family : Nat) (addr : Bytes) : Option Bytes :=
  if family ≠ afINET ∧ family ≠ afINET6 then none
  else
    let body := ptrLoop family addr.reverse []
    some (body ++ (if family = afINET then inAddrArpa else ip6Arpa))

/-! ## Reading a reverse-map name (specification side, RFC 1035 §3.5 and RFC 3596 §2.5) -/

def splitDots : Bytes → List Bytes
  | [] => [[]]
  | c :: rest =>
    if c = 46 then [] :: splitDots rest
    else match splitDots rest with
      | [] => [[c]]
      | l :: ls => (c :: l) :: ls

def decVal : Bytes → Nat → Option Nat
  | [], acc => some acc
  | c :: rest, acc => if isDigit c then decVal rest (acc * 10 + (c.toNat - 48)) else none

/-- a decimal octet label: 1..3 digits, value below 256, no leading zero except "0" -/
def parseOctet (l : Bytes) : Option UInt8 :=
  if l.length = 0 ∨ l.length > 3 then none
  else if l.length > 1 ∧ l.head? = some 48 then none
  else match decVal l 0 with
    | some v => if v < 256 then some (UInt8.ofNat v) else none
    | none => none

def hexVal (c : UInt8) : Option Nat :=
  if 48 ≤ c ∧ c ≤ 57 then some (c.toNat - 48)
  else if 97 ≤ c ∧ c ≤ 102 then some (c.toNat - 87)
  else if 65 ≤ c ∧ c ≤ 70 then some (c.toNat - 55)
  else none

def parseNibble (l : Bytes) : Option Nat :=
  match l with
  | [c] => hexVal c
  | _ => none

/-- nibbles, most significant first, to bytes -/
def pairUp : List Nat → Option Bytes
  | [] => some []
  | [_] => none
  | hi :: lo :: rest => (pairUp rest).map (fun bs => UInt8.ofNat (hi * 16 + lo) :: bs)

def lblInAddr : Bytes := [105, 110, 45, 97, 100, 100, 114]
def lblArpa : Bytes := [97, 114, 112, 97]
def lblIp6 : Bytes := [105, 112, 54]

/-- `d.c.b.a.in-addr.arpa` ↦ (AF_INET, [a,b,c,d]);
    32 nibble labels, least significant first, `.ip6.arpa` ↦ (AF_INET6, 16 bytes) -/
def parsePtrName (name : Bytes) : Option (Nat × Bytes) :=
  let labels := splitDots name
  if labels.length = 6 ∧ labels.drop 4 = [lblInAddr, lblArpa] then
    ((labels.take 4).reverse.mapM parseOctet).map (fun bs => (afINET, bs))
  else if labels.length = 34 ∧ labels.drop 32 = [lblIp6, lblArpa] then
    (((labels.take 32).reverse.mapM parseNibble).bind pairUp).map (fun bs => (afINET6, bs))
  else none

/-! ## ares_parse_ptr_reply_dnsrec -/

/-- the local variables of the answer loop of `ares_parse_ptr_reply_dnsrec` -/
structure PtrState where
  ptrname  : Bytes
  hostname : Option Bytes := none
  aliases  : List Bytes := []
  deriving Repr, DecidableEq

def ptrStep (s : PtrState) (rr : RR) : PtrState :=
  if rr.cls ≠ clsIN then s
  else match rr.data with
    | .cname c => { s with ptrname := c }      -- "any time we see a CNAME, replace our ptrname"
    | .ptr d => { s with hostname := some d, aliases := s.aliases ++ [d] }
    | _ => s

/-- `ares_parse_ptr_reply_dnsrec(dnsrec, addr, addrlen, family, &host)`; `addr = none` is a NULL
    pointer or `addrlen <= 0`; allocation succeeds -/
def parsePtrReply (r : LRec) (addr : Option Bytes) (addrlen family : Nat) : Status × Option Hostent :=
  match r.queryName with
  | .error e => (e.compat, none)
  | .ok ptrname =>
    if r.answers.isEmpty then (.enodata, none)
    else
      let s := r.answers.foldl ptrStep { ptrname := ptrname }
      match s.hostname with
      | none => (.enodata, none)
      | some h =>
        (.success, some { name := some h, aliases := s.aliases, addrtype := family, length := addrlen,
                          addrs := match addr with | some a => [a] | none => [] })

end Cares.AddrInfo
