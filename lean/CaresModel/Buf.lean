import CaresModel.Generated.DsaConsts
import CaresModel.Dsa.Alloc
import CaresModel.Dsa.Arr
/-
Model of src/lib/str/ares_buf.c (ares_buf_t): a byte buffer that is appended to at the end and parsed
from a moving offset, with one "tag" (remembered offset).

  C field                      model
  buf->alloc_buf[0..alloc_len) mem : List Nat     (dynamic buffer: the whole allocation, stale bytes included)
  buf->data (const buffer)     mem                (const buffer: the caller's bytes; alloc_buf == NULL)
  const-ness                   isConst            (`data != NULL && alloc_buf == NULL`)
  buf->data_len                dataLen
  buf->offset                  off
  buf->tag_offset              tag : Option Nat   (SIZE_MAX = none)

For a dynamic buffer `data` is always `alloc_buf` (both NULL until the first allocation).  Every function
follows the C control flow, including the order "try to append in place, else reclaim the consumed prefix,
else grow by doubling" of ares_buf_ensure_space(), the extra byte it reserves for the terminating NUL of
ares_buf_finish_str(), and the size_t wrap of `offset - tag_offset` when the offset was moved in front of
the tag with ares_buf_set_position().  Allocation is the oracle of CaresModel/Dsa/Alloc.lean; newly
allocated bytes read as 0 (the harness allocator zero-fills, the library never reads them).
-/
namespace Cares
open Cares.Generated Cares.Dsa

structure Buf where
  mem : List Nat
  isConst : Bool
  dataLen : Nat
  off : Nat
  tag : Option Nat
  deriving Repr, DecidableEq

namespace Buf

/-- ares_buf_create (one allocation; the oracle is consulted by the caller) -/
def empty : Buf := { mem := [], isConst := false, dataLen := 0, off := 0, tag := none }

/-- ares_buf_create_const (NULL for an empty slice) -/
def ofConst (data : List Nat) : Option Buf :=
  if data.isEmpty then none
  else some { mem := data, isConst := true, dataLen := data.length, off := 0, tag := none }

/-- buf->alloc_buf_len -/
def allocLen (b : Buf) : Nat := if b.isConst then 0 else b.mem.length

/-- `buf->data != NULL` -/
def hasData (b : Buf) : Bool := b.isConst || !b.mem.isEmpty

/-- ares_buf_len -/
def len (b : Buf) : Nat := b.dataLen - b.off

/-- the bytes between the start of the data and data_len -/
def live (b : Buf) : List Nat := b.mem.take b.dataLen

/-- what is still to be read: the bytes appended minus those consumed -/
def remaining (b : Buf) : List Nat := (b.mem.take b.dataLen).drop b.off

/-- the bytes between the tag and the offset -/
def tagged (b : Buf) : List Nat :=
  match b.tag with
  | none => []
  | some t => (b.mem.take b.off).drop t

/-- the part ares_buf_reclaim may drop: everything before the tag if there is one behind the offset,
    everything before the offset otherwise -/
def reclaimPrefix (b : Buf) : Nat :=
  match b.tag with
  | some t => if t < b.off then t else b.off
  | none => b.off

/-- ares_buf_reclaim -/
def reclaim (b : Buf) : Buf :=
  if b.isConst then b
  else if b.mem.isEmpty then b
  else if b.reclaimPrefix = 0 then b
  else
    { b with mem := Arr.memmove b.mem 0 b.reclaimPrefix (b.dataLen - b.reclaimPrefix),
             dataLen := b.dataLen - b.reclaimPrefix, off := b.off - b.reclaimPrefix,
             tag := b.tag.map (· - b.reclaimPrefix) }

/-- `do { alloc_size <<= 1; remaining_size = alloc_size - data_len; } while (remaining_size < needed_size);` -/
def growLoop : Nat → Nat → Nat → Nat → Nat
  | 0, a, _, _ => a
  | fuel + 1, a, d, n => if a * 2 - d < n then growLoop fuel (a * 2) d n else a * 2

/-- ares_buf_ensure_space -/
def ensureSpace (b : Buf) (needed : Nat) (o : Oracle) : St × Buf × Oracle :=
  if b.isConst then (.formerr, b, o)
  else
    let needed := needed + 1            -- room for the NUL of ares_buf_finish_str
    if b.allocLen - b.dataLen ≥ needed then (.ok, b, o)
    else
      let b1 := b.reclaim
      if b1.allocLen - b1.dataLen ≥ needed then (.ok, b1, o)
      else
        let start := if b1.allocLen = 0 then BUF_FIRST_ALLOC / 2 else b1.allocLen
        let size := growLoop (needed + b1.dataLen + 1) start b1.dataLen needed
        match o.next with
        | (false, o1) => (.nomem, b1, o1)
        | (true, o1) => (.ok, { b1 with mem := b1.mem ++ List.replicate (size - b1.mem.length) 0 }, o1)

/-- ares_buf_set_length -/
def setLength (b : Buf) (n : Nat) : St × Buf :=
  if b.isConst then (.formerr, b)
  else if n ≥ b.allocLen - b.off then (.formerr, b)
  else (.ok, { b with dataLen := n + b.off })

/-- ares_buf_append -/
def append (b : Buf) (data : List Nat) (o : Oracle) : St × Buf × Oracle :=
  if data.isEmpty then (.ok, b, o)
  else
    match b.ensureSpace data.length o with
    | (.ok, b1, o1) =>
      (.ok, { b1 with mem := b1.mem.take b1.dataLen ++ data ++ b1.mem.drop (b1.dataLen + data.length),
                      dataLen := b1.dataLen + data.length }, o1)
    | r => r

/-- a run of ares_buf_append_byte calls that stops at the first failure (ares_buf_append_be16 / _be32) -/
def appendBytes (b : Buf) : List Nat → Oracle → St × Buf × Oracle
  | [], o => (.ok, b, o)
  | x :: xs, o =>
    match b.append [x] o with
    | (.ok, b1, o1) => appendBytes b1 xs o1
    | r => r

def appendBe16 (b : Buf) (n : Nat) (o : Oracle) := b.appendBytes [(n >>> 8) &&& 0xff, n &&& 0xff] o
def appendBe32 (b : Buf) (n : Nat) (o : Oracle) :=
  b.appendBytes [(n >>> 24) &&& 0xff, (n >>> 16) &&& 0xff, (n >>> 8) &&& 0xff, n &&& 0xff] o

/-- ares_buf_tag -/
def doTag (b : Buf) : Buf := { b with tag := some b.off }

/-- ares_buf_tag_rollback -/
def tagRollback (b : Buf) : St × Buf :=
  match b.tag with
  | none => (.formerr, b)
  | some t => (.ok, { b with off := t, tag := none })

/-- ares_buf_tag_clear -/
def tagClear (b : Buf) : St × Buf :=
  match b.tag with
  | none => (.formerr, b)
  | some _ => (.ok, { b with tag := none })

/-- 2 ^ (bits of size_t) -/
def sizeMod : Nat := 2 ^ (8 * SIZEOF_SIZE_T)

/-- ares_buf_tag_length: `offset - tag_offset` in size_t arithmetic -/
def tagLength (b : Buf) : Nat :=
  match b.tag with
  | none => 0
  | some t => if t ≤ b.off then b.off - t else sizeMod - (t - b.off)

/-- ares_buf_tag_fetch_bytes into a caller buffer of `cap` bytes -/
def tagFetchBytes (b : Buf) (cap : Nat) : Option (List Nat) :=
  match b.tag with
  | none => none
  | some t =>
    if !b.hasData then none            -- `data + tag_offset` is NULL for a buffer that never allocated
    else if cap < b.tagLength then none else some ((b.mem.drop t).take (b.off - t))

/-- ares_buf_consume -/
def consume (b : Buf) (n : Nat) : St × Buf :=
  if b.len < n then (.formerr, b) else (.ok, { b with off := b.off + n })

/-- ares_buf_fetch: pointer to and length of the unread bytes (NULL when there are none) -/
def fetch (b : Buf) : Option (List Nat) :=
  if !b.hasData then none
  else if b.len = 0 then none
  else some b.remaining

/-- ares_buf_fetch_bytes -/
def fetchBytes (b : Buf) (n : Nat) : Option (List Nat) × Buf :=
  match b.fetch with
  | none => (none, b)
  | some r => if n = 0 ∨ r.length < n then (none, b) else (some (r.take n), (b.consume n).2)

def beVal (l : List Nat) : Nat := l.foldl (fun acc x => acc * 256 + x) 0

/-- ares_buf_fetch_be16 / ares_buf_fetch_be32 (`n` = 2 or 4) -/
def fetchBe (b : Buf) (n : Nat) : Option Nat × Buf :=
  match b.fetch with
  | none => (none, b)
  | some r => if r.length < n then (none, b) else (some (beVal (r.take n)), (b.consume n).2)

/-- ares_buf_get_position / ares_buf_set_position -/
def setPosition (b : Buf) (idx : Nat) : St × Buf :=
  if idx > b.dataLen then (.formerr, b) else (.ok, { b with off := idx })

/-- ares_is_whitespace -/
def isWhitespace (c : Nat) (includeLinefeed : Bool) : Bool :=
  c == 13 || c == 9 || c == 32 || c == 11 || c == 12 || (c == 10 && includeLinefeed)

/-- the consume_* helpers: count a prefix of the unread bytes, consume it when non-empty -/
def consumeCount (b : Buf) (n : Nat) : Nat × Buf := if n > 0 then (n, (b.consume n).2) else (n, b)

def consumeWhitespace (b : Buf) (incl : Bool) : Nat × Buf :=
  match b.fetch with
  | none => (0, b)
  | some r => b.consumeCount (r.takeWhile (isWhitespace · incl)).length

def consumeNonWhitespace (b : Buf) : Nat × Buf :=
  match b.fetch with
  | none => (0, b)
  | some r => b.consumeCount (r.takeWhile (fun c => !isWhitespace c true)).length

def consumeLine (b : Buf) (incl : Bool) : Nat × Buf :=
  match b.fetch with
  | none => (0, b)
  | some r =>
    let i := (r.takeWhile (· != 10)).length
    b.consumeCount (if incl ∧ i < r.length then i + 1 else i)

/-- ares_buf_consume_until_charset; `none` = SIZE_MAX (charset required but absent) -/
def consumeUntilCharset (b : Buf) (charset : List Nat) (require : Bool) : Option Nat × Buf :=
  match b.fetch with
  | none => (some 0, b)
  | some r =>
    if charset.isEmpty then (some 0, b)
    else
      let pos := (r.takeWhile (fun c => !charset.contains c)).length
      if require ∧ pos = r.length then (none, b)
      else let x := b.consumeCount pos; (some x.1, x.2)

/-- ares_buf_consume_charset -/
def consumeCharset (b : Buf) (charset : List Nat) : Nat × Buf :=
  match b.fetch with
  | none => (0, b)
  | some r => if charset.isEmpty then (0, b) else b.consumeCount (r.takeWhile (charset.contains ·)).length

/-- ares_buf_finish_bin: reclaim, make sure there is an allocation, hand out `alloc_buf[0..data_len)` -/
def finishBin (b : Buf) (o : Oracle) : Option (List Nat) × Oracle :=
  if b.isConst then (none, o)
  else
    let b1 := b.reclaim
    if b1.mem.isEmpty then
      match b1.ensureSpace 1 o with
      | (.ok, b2, o1) => (some (b2.mem.take b2.dataLen), o1)
      | (_, _, o1) => (none, o1)
    else (some (b1.mem.take b1.dataLen), o)

/-! ### ares_buf_split -/

structure SplitFlags where
  keepDelims : Bool
  allowBlank : Bool
  noDuplicates : Bool
  caseInsensitive : Bool
  ltrim : Bool
  rtrim : Bool

def SplitFlags.ofNat (n : Nat) : SplitFlags :=
  { keepDelims := n &&& 1 != 0, allowBlank := n &&& 2 != 0, noDuplicates := n &&& 4 != 0,
    caseInsensitive := n &&& 8 != 0, ltrim := n &&& 16 != 0, rtrim := n &&& 32 != 0 }

def tolowerB (c : Nat) : Nat := TOLOWER.getD c c

/-- ares_buf_split_isduplicate: same length and equal bytes (ares_memeq / ares_memeq_ci) -/
def isDuplicate (fl : SplitFlags) (arr : List (List Nat)) (v : List Nat) : Bool :=
  arr.any (fun s => s.length == v.length &&
    (if fl.caseInsensitive then s.map tolowerB == v.map tolowerB else s == v))

/-- strip trailing whitespace (`while (len > 0 && ares_is_whitespace(ptr[len - 1], ARES_TRUE)) len--;`) -/
def rtrimWs (l : List Nat) : List Nat := (l.reverse.dropWhile (isWhitespace · true)).reverse

/-- what one loop iteration does with the section it cut out -/
def keepSection (fl : SplitFlags) (acc : List (List Nat)) (sec : List Nat) : List (List Nat) :=
  let sec := if fl.ltrim then sec.dropWhile (isWhitespace · true) else sec
  let sec := if fl.rtrim then rtrimWs sec else sec
  if sec.length ≠ 0 ∨ fl.allowBlank then
    if !fl.noDuplicates || !isDuplicate fl acc sec then acc ++ [sec] else acc
  else acc

/-- start of one loop iteration: tag the section start and step over the delimiter the previous iteration
    stopped at (`first` = there is no delimiter yet) -/
def splitAdvance (fl : SplitFlags) (b : Buf) (first : Bool) : Buf :=
  if first then b.doTag
  else if fl.keepDelims then (b.doTag.consume 1).2     -- tag, then eat the delimiter: it is the first byte
  else (b.consume 1).2.doTag                           -- throw the delimiter away

/-- move to the end of the section: everything that is left once `max_sections - 1` sections exist,
    otherwise up to the next delimiter -/
def splitScan (delims : List Nat) (maxReached : Bool) (b1 : Buf) : Buf :=
  if maxReached then (b1.consume b1.len).2 else (b1.consumeUntilCharset delims false).2

/-- the loop of ares_buf_split(), on the buffer's cursor and tag exactly as the C code drives them.
    `none` = the "shouldn't be possible" ARES_EFORMERR. -/
def splitLoop (delims : List Nat) (fl : SplitFlags) (maxSections : Nat) :
    Nat → Buf → Bool → List (List Nat) → Option (Buf × List (List Nat))
  | 0, b, _, acc => some (b, acc)
  | fuel + 1, b, first, acc =>
    if b.len = 0 then some (b, acc)
    else
      let b2 := splitScan delims (maxSections ≠ 0 ∧ acc.length ≥ maxSections - 1) (splitAdvance fl b first)
      match b2.tag with
      | none => none
      | some t =>
        let sec := (b2.mem.drop t).take (b2.off - t)       -- ares_buf_tag_fetch
        splitLoop delims fl maxSections fuel b2 false (keepSection fl acc sec)

/-- ares_buf_split with allocations succeeding (`none` = ARES_EFORMERR) -/
def split (b : Buf) (delims : List Nat) (fl : SplitFlags) (maxSections : Nat) : Option (Buf × List (List Nat)) :=
  if delims.isEmpty then none
  else splitLoop delims fl maxSections (b.len + 1) b true []

/-! ### specification side -/

/-- representation invariant -/
structure Inv (b : Buf) : Prop where
  dlen : b.dataLen ≤ b.mem.length
  offLe : b.off ≤ b.dataLen
  tagLe : ∀ t, b.tag = some t → t ≤ b.dataLen
  /-- const buffers are exactly their data; a dynamic buffer always keeps one spare byte for the NUL -/
  room : if b.isConst then b.dataLen = b.mem.length else (b.mem = [] ∨ b.dataLen < b.mem.length)

/-- the tag is not ahead of the offset (true unless ares_buf_set_position moved the offset back) -/
def TagBehind (b : Buf) : Prop := ∀ t, b.tag = some t → t ≤ b.off

end Buf
end Cares
