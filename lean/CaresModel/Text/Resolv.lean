import CaresModel.Text.Sortlist
/-
Model of the system-configuration text layer (src/lib/ares_sysconfig_files.c):
`ares_sysconfig_process_buf` as a fold of a line step over the split lines, the three line callbacks
(resolv.conf, nsswitch.conf, netsvc.conf/svc.conf), `ares_sysconfig_set_options` / `process_option`,
`config_search`, `config_lookup`, `ares_init_by_environment`, `ares_init_sysconfig_files`.

The model follows the tree *with* the repairs of F15 (leak only; no behavioural difference here), F16
(`search ,`), F30-C15 (malformed sortlist line) and F32-C15 (timeout saturation).  The pinned behaviour
is kept as `configSearchPinned` / `resolvLinePinned` for the counterexample theorems.
-/
namespace Cares.Text

/-- `ares_sysconfig_t` -/
structure SysConfig where
  sconfig : Option (List SConfig) := none
  sortlist : List Pat := []
  domains : Option (List Bytes) := none
  lookups : Option Bytes := none
  ndots : Nat := 1
  tries : Nat := 0
  rotate : Bool := false
  timeoutMs : Nat := 0
  usevc : Bool := false
  deriving DecidableEq, Repr

/-- `config_search(sysconfig, str, max_domains)` — repaired: a value made of separators only is ignored -/
def configSearch (s : SysConfig) (str : Bytes) (maxDomains : Nat) : Status × SysConfig :=
  if str.all (fun c => c == 44 || c == 32) then (.success, s)
  else
    match strsplit str [44, 32] with
    | none => (.enomem, { s with domains := none })
    | some l => (.success, { s with domains := some (if maxDomains ≠ 0 then l.take maxDomains else l) })

/-- pinned tree (F16): "no token" is reported as ENOMEM -/
def configSearchPinned (s : SysConfig) (str : Bytes) (maxDomains : Nat) : Status × SysConfig :=
  match strsplit str [44, 32] with
  | none => (.enomem, { s with domains := none })
  | some l => (.success, { s with domains := some (if maxDomains ≠ 0 then l.take maxDomains else l) })

def lookupLetter (w : Bytes) : Option Nat :=
  let lw := strLower w
  -- dns bind resolv resolve
  if lw == [100, 110, 115] || lw == [98, 105, 110, 100] || lw == [114, 101, 115, 111, 108, 118] ||
     lw == [114, 101, 115, 111, 108, 118, 101] then some 98
  -- files file local
  else if lw == [102, 105, 108, 101, 115] || lw == [102, 105, 108, 101] || lw == [108, 111, 99, 97, 108] then some 102
  else none

/-- one word of the lookup list: append its letter unless already present -/
def lookupStep (acc : Bytes) (w : Bytes) : Bytes :=
  match lookupLetter w with
  | some ch => if acc.contains ch then acc else acc ++ [ch]
  | none => acc

/-- `config_lookup(sysconfig, buf, separators)`: never fails (except ENOMEM, not modelled) -/
def configLookup (s : SysConfig) (buf : Bytes) (seps : List Nat) : SysConfig :=
  match splitStr seps SplitFlags.trim 0 buf with
  | .error _ => s
  | .ok words =>
    let str := words.foldl lookupStep []
    if str.isEmpty then s else { s with lookups := some str }

def kNdots : Bytes := [110, 100, 111, 116, 115]
def kRetrans : Bytes := [114, 101, 116, 114, 97, 110, 115]
def kTimeout : Bytes := [116, 105, 109, 101, 111, 117, 116]
def kRetry : Bytes := [114, 101, 116, 114, 121]
def kAttempts : Bytes := [97, 116, 116, 101, 109, 112, 116, 115]
def kRotate : Bytes := [114, 111, 116, 97, 116, 101]
def kUseVc : Bytes := [117, 115, 101, 45, 118, 99]
def kUsevc : Bytes := [117, 115, 101, 118, 99]

/-- `valint * 1000` after the saturation of F32-C15; `sat := false` gives the pinned unsigned-int wrap -/
def timeoutMsOf (sat : Bool) (valint : Nat) : Nat :=
  if sat then (if valint > 4294967295 / 1000 then 4294967295 / 1000 else valint) * 1000
  else (valint * 1000) % 4294967296

/-- `valint = (unsigned int)strtoul(kv[1], NULL, 10)` when there is a value, else 0 -/
def optValint : List Bytes → Nat
  | [v] => strtoulU32 v
  | _ => 0

/-- `process_option` -/
def processOption (sat : Bool) (s : SysConfig) (opt : Bytes) : Status × SysConfig :=
  match splitStr [58] SplitFlags.trim 2 opt with
  | .error e => (e, s)
  | .ok kv =>
    match kv with
    | [] => (.ebadstr, s)
    | key :: rest =>
      let valint := optValint rest
      if key == kNdots then (.success, { s with ndots := valint })
      else if key == kRetrans || key == kTimeout then
        (if valint = 0 then (.eformerr, s) else (.success, { s with timeoutMs := timeoutMsOf sat valint }))
      else if key == kRetry || key == kAttempts then
        (if valint = 0 then (.eformerr, s) else (.success, { s with tries := valint }))
      else if key == kRotate then (.success, { s with rotate := true })
      else if key == kUseVc || key == kUsevc then (.success, { s with usevc := true })
      else (.success, s)

def optionStep (sat : Bool) (acc : SysConfig) (o : Bytes) : SysConfig := (processOption sat acc o).2

/-- `ares_sysconfig_set_options(sysconfig, str)` -/
def setOptions (sat : Bool) (s : SysConfig) (str : Bytes) : Status × SysConfig :=
  if str.isEmpty then (.enomem, s)
  else
    let s' := (bufSplit [32, 9] SplitFlags.trim 0 str).foldl (optionStep sat) s
    (.success, s')

/-- `ares_init_by_environment` -/
def initByEnvironment (s : SysConfig) (localdomain resOptions : Option Bytes) : Status × SysConfig :=
  let r1 : Status × SysConfig := match localdomain with
    | some v => configSearch s v 1
    | none => (.success, s)
  if r1.1 != .success then r1
  else match resOptions with
    | some v => setOptions true r1.2 v
    | none => r1

def kDomain : Bytes := [100, 111, 109, 97, 105, 110]
def kLookup : Bytes := [108, 111, 111, 107, 117, 112]
def kHostresorder : Bytes := [104, 111, 115, 116, 114, 101, 115, 111, 114, 100, 101, 114]
def kSearch : Bytes := [115, 101, 97, 114, 99, 104]
def kNameserver : Bytes := [110, 97, 109, 101, 115, 101, 114, 118, 101, 114]
def kSortlist : Bytes := [115, 111, 114, 116, 108, 105, 115, 116]
def kOptions : Bytes := [111, 112, 116, 105, 111, 110, 115]
def kHosts : Bytes := [104, 111, 115, 116, 115]

/-- the keyword / value split of a resolv.conf line (`option[32]`, `value[512]`): `none` when the line
    is a comment, has no keyword, a part does not fit its fixed-size buffer or is not printable, or the
    value is empty.  `rawValue` is the value before `ares_str_trim` (what `lookup` re-reads). -/
def resolvSplit (line : Bytes) : Option (Bytes × Bytes × Bytes) :=
  match line with
  | 35 :: _ => none
  | 59 :: _ => none
  | _ =>
    let opt := line.takeWhile (fun c => !isWs true c)
    if opt.isEmpty then none
    else match fetchString 32 opt with
      | .error _ => none
      | .ok option =>
        let raw := (line.dropWhile (fun c => !isWs true c)).dropWhile (isWs true)
        match fetchString 512 raw with
        | .error _ => none
        | .ok v =>
          let value := trim v
          if value.isEmpty then none else some (option, value, raw)

/-- the effect of a keyword on the configuration; `fixed` selects repaired (true) or pinned (false) code -/
def resolvApply (fixed : Bool) (ifs : Ifaces) (s : SysConfig) (option value raw : Bytes) : Status × SysConfig :=
  if option == kDomain then
    (if s.domains.isNone then (if fixed then configSearch s value 1 else configSearchPinned s value 1)
     else (.success, s))
  else if option == kLookup || option == kHostresorder then (.success, configLookup s raw [32, 9])
  else if option == kSearch then (if fixed then configSearch s value 0 else configSearchPinned s value 0)
  else if option == kNameserver then
    let r := appendFromStr ifs s.sconfig value true
    (r.1, { s with sconfig := r.2 })
  else if option == kSortlist then
    let r := parseSortlist value
    let st := if r.1 != .enomem then Status.success else r.1
    if fixed then (st, if r.1 == .success && !r.2.isEmpty then { s with sortlist := r.2 } else s)
    else (st, { s with sortlist := r.2 })
  else if option == kOptions then setOptions fixed s value
  else (.success, s)

/-- `ares_sysconfig_parse_resolv_line` -/
def resolvLineG (fixed : Bool) (ifs : Ifaces) (s : SysConfig) (line : Bytes) : Status × SysConfig :=
  match resolvSplit line with
  | none => (.success, s)
  | some (option, value, raw) => resolvApply fixed ifs s option value raw

def resolvLine (ifs : Ifaces) (s : SysConfig) (line : Bytes) : Status × SysConfig := resolvLineG true ifs s line
def resolvLinePinned (ifs : Ifaces) (s : SysConfig) (line : Bytes) : Status × SysConfig := resolvLineG false ifs s line

/-- `buf_fetch_string(buf, str, len)`: everything left in the buffer -/
def bufFetchString (cap : Nat) (b : Bytes) : Except Status Bytes := fetchString cap b

/-- `parse_nsswitch_line` ("hosts: files dns") and `parse_svcconf_line` ("hosts = local , bind"):
    `sep` is the key separator, `vseps` the value separators -/
def dbLine (sep : Nat) (vseps : List Nat) (s : SysConfig) (line : Bytes) : Status × SysConfig :=
  match line with
  | 35 :: _ => (.success, s)
  | _ =>
    match bufSplit [sep] SplitFlags.trim 2 line with
    | [k, v] =>
      (match bufFetchString 32 k with
        | .error _ => (.success, s)
        | .ok option => if option == kHosts then (.success, configLookup s v vseps) else (.success, s))
    | _ => (.success, s)

def nsswitchLine (s : SysConfig) (line : Bytes) : Status × SysConfig := dbLine 58 [32, 9] s line
def svcconfLine (s : SysConfig) (line : Bytes) : Status × SysConfig := dbLine 61 [44] s line

/-- `ares_sysconfig_process_buf`: a fold of the line callback over the split lines that stops at the
    first status other than success -/
def foldLines (step : SysConfig → Bytes → Status × SysConfig) (s : SysConfig) : List Bytes → Status × SysConfig
  | [] => (.success, s)
  | l :: r =>
    let x := step s l
    if x.1 != .success then x else foldLines step x.2 r

def processBuf (step : SysConfig → Bytes → Status × SysConfig) (s : SysConfig) (text : Bytes) : Status × SysConfig :=
  foldLines step s (lines text)

/-- the configuration files of `ares_init_sysconfig_files` (`none` = file does not exist) -/
structure SysFiles where
  resolv : Option Bytes := none
  nsswitch : Option Bytes := none
  netsvc : Option Bytes := none
  svc : Option Bytes := none
  deriving Repr, DecidableEq

def processFile (step : SysConfig → Bytes → Status × SysConfig) (s : SysConfig) : Option Bytes → Status × SysConfig
  | none => (.enotfound, s)
  | some t => processBuf step s t

/-- `ares_init_sysconfig_files(channel, sysconfig, process_resolvconf)` -/
def initSysconfigFiles (fixed : Bool) (ifs : Ifaces) (s : SysConfig) (f : SysFiles) (processResolv : Bool) :
    Status × SysConfig :=
  let r1 := if processResolv then processFile (resolvLineG fixed ifs) s f.resolv else (.success, s)
  if r1.1 != .success && r1.1 != .enotfound then r1
  else
    let r2 := processFile nsswitchLine r1.2 f.nsswitch
    if r2.1 != .success && r2.1 != .enotfound then r2
    else
      let r3 := processFile svcconfLine r2.2 f.netsvc
      if r3.1 != .success && r3.1 != .enotfound then r3
      else
        let r4 := processFile svcconfLine r3.2 f.svc
        if r4.1 != .success && r4.1 != .enotfound then r4
        else (.success, r4.2)

end Cares.Text
