import CaresModel.Text.Split
import CaresModel.Text.Pton
/-
Model of the hosts-file parser (`ares_parse_hosts`, `ares_parse_hosts_ipaddr`,
`ares_parse_hosts_hostnames`, `ares_hosts_file_add` / `_merge_entry` in src/lib/ares_hosts_file.c) and
of `ares_lookup_hostaliases` (src/lib/ares_search.c).

The C parser is a cursor loop whose every round stays inside one LF-terminated line
(`ares_buf_consume_whitespace(buf, FALSE)`, `ares_buf_consume_nonwhitespace`, `ares_buf_consume_line`);
the model works at line granularity: `hostsLine` parses one raw line, `hostsAdd` merges the entry.
-/
namespace Cares.Text

structure HostsEntry where
  ips : List Bytes       -- normalised address texts
  hosts : List Bytes
  deriving Repr, DecidableEq

/-- the cached file: entries (index = identity) and the two case-insensitive indexes -/
structure HostsFile where
  entries : List HostsEntry := []
  iphash : List (Bytes × Nat) := []
  hosthash : List (Bytes × Nat) := []
  deriving Repr, DecidableEq

def hashGet (h : List (Bytes × Nat)) (k : Bytes) : Option Nat :=
  (h.find? (fun p => strCaseEq p.1 k)).map (·.2)

/-- `ares_normalize_ipaddr` -/
def normalizeIp (s : Bytes) : Option Bytes := (dnsPton .unspec s).map ntop

/-- the host names of a line after the address (`ares_parse_hosts_hostnames`): `none` = bad line.
    `acc` are the names kept so far, `ip` the entry's address text (the duplicate check compares
    against the entry's *addresses*, as the C code does). -/
def hostsNames (ip : Bytes) : Nat → Bytes → List Bytes → Option (List Bytes)
  | 0, _, acc => if acc.isEmpty then none else some acc
  | fuel + 1, rest, acc =>
    let r := rest.dropWhile (isWs false)
    match r with
    | [] => if acc.isEmpty then none else some acc
    | 35 :: _ => if acc.isEmpty then none else some acc
    | _ =>
      let tok := r.takeWhile (fun c => !isWs true c)
      if tok.isEmpty then (if acc.isEmpty then none else some acc)   -- at the line feed
      else
        let r2 := r.dropWhile (fun c => !isWs true c)
        match fetchString 256 tok with
        | .error _ => if acc.isEmpty then none else hostsNames ip fuel r2 acc
        | .ok h =>
          if !isHostname h then hostsNames ip fuel r2 acc
          else if strCaseEq ip h then hostsNames ip fuel r2 acc
          else hostsNames ip fuel r2 (acc ++ [h])

/-- one raw line (no LF inside) → the entry it contributes, if any -/
def hostsLine (line : Bytes) : Option HostsEntry :=
  let r := line.dropWhile (isWs false)
  match r with
  | [] => none
  | 35 :: _ => none
  | _ =>
    let tok := r.takeWhile (fun c => !isWs true c)
    match fetchString 46 tok with
    | .error _ => none
    | .ok a =>
      match normalizeIp a with
      | none => none
      | some ip =>
        match hostsNames ip (r.length + 1) (r.dropWhile (fun c => !isWs true c)) [] with
        | none => none
        | some hs => some { ips := [ip], hosts := hs }

def setEntry (l : List HostsEntry) (i : Nat) (e : HostsEntry) : List HostsEntry := l.set i e

/-- `ares_hosts_file_add` (+ `ares_hosts_file_match`, `ares_hosts_file_merge_entry`) -/
def hostsAdd (hf : HostsFile) (e : HostsEntry) : HostsFile :=
  let ipMatch := e.ips.findSome? (hashGet hf.iphash)
  match ipMatch with
  | some idx =>
    -- matched on the address: only the host names are merged
    let ex := hf.entries.getD idx { ips := [], hosts := [] }
    let newHosts := e.hosts.filter (fun h => (hashGet hf.hosthash h).isNone)
    let ex' := { ex with hosts := ex.hosts ++ newHosts }
    let hh := newHosts.reverse.foldl (fun acc h => if (hashGet acc h).isSome then acc else acc ++ [(h, idx)]) hf.hosthash
    { hf with entries := setEntry hf.entries idx ex', hosthash := hh }
  | none =>
    match e.hosts.findSome? (hashGet hf.hosthash) with
    | some idx =>
      let ex := hf.entries.getD idx { ips := [], hosts := [] }
      let newIps := e.ips.filter (fun ip => (hashGet hf.iphash ip).isNone)
      let newHosts := e.hosts.filter (fun h => (hashGet hf.hosthash h).isNone)
      let ex' : HostsEntry := { ips := ex.ips ++ newIps, hosts := ex.hosts ++ newHosts }
      let ih := match ex'.ips.getLast? with
        | some ip => if (hashGet hf.iphash ip).isSome then hf.iphash else hf.iphash ++ [(ip, idx)]
        | none => hf.iphash
      let hh := newHosts.reverse.foldl (fun acc h => if (hashGet acc h).isSome then acc else acc ++ [(h, idx)]) hf.hosthash
      { entries := setEntry hf.entries idx ex', iphash := ih, hosthash := hh }
    | none =>
      let idx := hf.entries.length
      let ih := match e.ips.getLast? with
        | some ip => hf.iphash ++ [(ip, idx)]
        | none => hf.iphash
      let hh := e.hosts.reverse.foldl (fun acc h => if (hashGet acc h).isSome then acc else acc ++ [(h, idx)]) hf.hosthash
      { entries := hf.entries ++ [e], iphash := ih, hosthash := hh }

def hostsStep (hf : HostsFile) (line : Bytes) : HostsFile :=
  match hostsLine line with
  | none => hf
  | some e => hostsAdd hf e

/-- `ares_parse_hosts` on the file content -/
def parseHosts (text : Bytes) : HostsFile := (rawSplit (· == 10) text).foldl hostsStep {}

def searchHost (hf : HostsFile) (name : Bytes) : Option HostsEntry :=
  match hashGet hf.hosthash name with
  | some i => hf.entries[i]?
  | none => none

/-- `ares_hosts_search_ipaddr`: `.error true` = the query is not an address (EBADNAME) -/
def searchIp (hf : HostsFile) (q : Bytes) : Except Bool HostsEntry :=
  match normalizeIp q with
  | none => .error true
  | some ip => match hashGet hf.iphash ip with
    | some i => match hf.entries[i]? with
      | some e => .ok e
      | none => .error false
    | none => .error false

/-! ### HOSTALIASES -/

/-- what `getenv("HOSTALIASES")` + `ares_buf_load_file` yield -/
inductive AliasSrc where
  | unset                 -- variable not set
  | missing               -- file cannot be opened (ENOENT → ARES_ENOTFOUND)
  | file (text : Bytes)
  deriving Repr, DecidableEq

def aliasLine (name : Bytes) (line : Bytes) : Option Bytes :=
  let host := line.takeWhile (fun c => !isWs true c)
  match fetchString 64 host with
  | .error _ => none
  | .ok h =>
    if !strCaseEq h name then none
    else
      let r := (line.dropWhile (fun c => !isWs true c)).dropWhile (isWs true)
      let fq := r.takeWhile (fun c => !isWs true c)
      match fetchString 256 fq with
      | .error _ => none
      | .ok f => if f.isEmpty then none else if !isHostname f then none else some f

/-- `ares_lookup_hostaliases(channel, name, &alias)`; `flags` are the channel flags -/
def lookupHostaliases (noAliases : Bool) (src : AliasSrc) (name : Bytes) : Except Status Bytes :=
  if noAliases then .error .enotfound
  else if name.contains 46 then .error .enotfound
  else match src with
    | .unset => .error .enotfound
    | .missing => .error .enotfound
    | .file text =>
      match (lines text).findSome? (aliasLine name) with
      | some a => .ok a
      | none => .error .enotfound

end Cares.Text
