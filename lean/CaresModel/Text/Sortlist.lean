import CaresModel.Text.Split
import CaresModel.Text.Pton
import CaresModel.Text.Server
/-
Model of `ares_parse_sortlist` / `parse_sort` / `ip_natural_mask` (src/lib/ares_sysconfig_files.c).
-/
namespace Cares.Text

/-- `struct apattern` -/
structure Pat where
  addr : Addr
  mask : Nat
  deriving DecidableEq, Repr

/-- `ip_natural_mask` -/
def naturalMask : Addr → Nat
  | .v6 _ => 64
  | .v4 o => if o.getD 0 0 < 128 then 8 else if o.getD 0 0 < 192 then 16 else 24

/-- the optional `/mask` part of `parse_sort` (numeric prefix length or dotted IPv4 mask), else the
    natural mask; returns the mask and what follows it -/
def sortMask (a : Addr) (rest : Bytes) : Except Status (Nat × Bytes) :=
  match rest with
  | 47 :: r1 =>
    let mtok := r1.takeWhile (inCharset ipv4Charset)
    let rest2 := r1.dropWhile (inCharset ipv4Charset)
    if mtok.isEmpty then .error .ebadstr
    else match fetchString 16 mtok with
      | .error e => .error e
      | .ok ms =>
        if isNum ms then
          let m := atoi ms
          if m < 0 || m > 128 then .error .ebadstr
          else if !a.isV6 && m > 32 then .error .ebadstr
          else .ok (m.toNat % 256, rest2)
        else match pton4 ms with
          | some o => .ok ((o.map popcount8).foldl (· + ·) 0 % 256, rest2)
          | none => .error .ebadstr
  | _ => .ok (naturalMask a, rest)

/-- `parse_sort`: `.error .enotfound` is the "blank entry, skip it" indicator -/
def parseSort (entry : Bytes) : Except Status Pat :=
  let b0 := entry.dropWhile (isWs true)
  if b0.isEmpty then .error .enotfound
  else
    let tok := b0.takeWhile (inCharset ipv6Charset)
    let rest := b0.dropWhile (inCharset ipv6Charset)
    if tok.isEmpty then .error .ebadstr
    else match fetchString 46 tok with
      | .error e => .error e
      | .ok ip =>
        match dnsPton .unspec ip with
        | none => .error .ebadstr
        | some a =>
          match sortMask a rest with
          | .error e => .error e
          | .ok (mask, rest3) =>
            if !(rest3.dropWhile (isWs true)).isEmpty then .error .ebadstr
            else .ok { addr := a, mask := mask }

/-- one round of the entry loop of `ares_parse_sortlist` -/
def sortEntry (acc : Status × List Pat) (entry : Bytes) : Status × List Pat :=
  if acc.1 != .success then acc
  else match parseSort entry with
    | .ok p => (.success, acc.2 ++ [p])
    | .error .enotfound => acc
    | .error e => (e, acc.2)

/-- `ares_parse_sortlist(&sortlist, &nsort, str)`: the output is cleared first; any bad entry fails the
    whole string (and leaves the output empty) -/
def parseSortlist (str : Bytes) : Status × List Pat :=
  if str.isEmpty then (.enomem, [])
  else
    let r := (bufSplit [32, 59] SplitFlags.none 0 str).foldl sortEntry (.success, [])
    if r.1 != .success then (r.1, []) else r

end Cares.Text
