import CaresModel.Text.Split
import CaresModel.Text.Uri
/-
Model of the server-list half of `src/lib/ares_update_servers.c`:
`parse_nameserver`, `parse_nameserver_uri`, `ares_sconfig_append` (blacklist, link-local rules),
`ares_sconfig_append_fromstr`, `ares_servers_update` (as far as configuration is concerned),
`ares_get_server_addr` / `ares_get_servers_csv`, `set_servers_csv`.

Interface name ↔ index resolution (`sock_funcs.aif_nametoindex / aif_indextoname`) is a parameter
(`Ifaces`); `none` stands for "callbacks not installed" (the state during `ares_init_options`).
-/
namespace Cares.Text

/-- `ares_sconfig_t` -/
structure SConfig where
  addr : Addr
  udp : Nat := 0
  tcp : Nat := 0
  iface : Bytes := []
  scope : Nat := 0
  deriving DecidableEq, Repr

/-- the configuration part of `ares_server_t` -/
structure Server where
  addr : Addr
  udp : Nat
  tcp : Nat
  iface : Bytes := []
  scope : Nat := 0
  deriving DecidableEq, Repr

abbrev Ifaces := Option (List (Bytes × Nat))

def Ifaces.nameToIndex (i : Ifaces) (name : Bytes) : Nat :=
  match i with
  | none => 0
  | some l => match l.find? (fun p => p.1 == name) with
    | some p => p.2
    | none => 0

def Ifaces.indexToName (i : Ifaces) (idx : Nat) : Option Bytes :=
  match i with
  | none => none
  | some l => (l.find? (fun p => p.2 == idx)).map (·.1)

def inCharset (cs : List Nat) (c : Nat) : Bool := cs.contains c

def ipv4Charset : List Nat := [48, 49, 50, 51, 52, 53, 54, 55, 56, 57, 46]
def digitCharset : List Nat := [48, 49, 50, 51, 52, 53, 54, 55, 56, 57]
/-- "ABCDEFabcdef0123456789.:" -/
def ipv6Charset : List Nat :=
  [65, 66, 67, 68, 69, 70, 97, 98, 99, 100, 101, 102, 48, 49, 50, 51, 52, 53, 54, 55, 56, 57, 46, 58]
/-- letters, digits and ".-_\\:{}" -/
def isIfaceCh (c : Nat) : Bool :=
  isAlpha c || isDigit c || c == 46 || c == 45 || c == 95 || c == 92 || c == 58 || c == 123 || c == 125

/-- `parse_nameserver_uri` (after the repair that zeroes the output first) -/
def parseNameserverUri (entry : Bytes) : Except Status SConfig :=
  match uriParse entry with
  | .error e => .error e
  | .ok u =>
    if u.scheme != [100, 110, 115] then .error .ebadstr
    else
      let hoststr := strcpyTrunc 256 u.host
      let h := hoststr.takeWhile (· != 37)
      let iface : Bytes := match hoststr.dropWhile (· != 37) with
        | [] => []
        | _ :: s => strcpyTrunc 16 s
      match dnsPton .unspec h with
      | none => .error .ebadstr
      | some a =>
        let tcp := match dictGet u.query [116, 99, 112, 112, 111, 114, 116] with
          | some v => atoiU16 v
          | none => u.port
        .ok { addr := a, udp := u.port, tcp := tcp, iface := iface }

/-- the address text of `parse_nameserver` (`ipaddr[INET6_ADDRSTRLEN]`) and what follows it -/
def nsIp (b0 : Bytes) : Except Status (Bytes × Bytes) :=
  match b0 with
  | 91 :: r =>
    let inner := r.takeWhile (· != 93)
    let after := r.dropWhile (· != 93)
    if after.isEmpty then .error .ebadstr
    else match fetchString 46 inner with
      | .error e => .error e
      | .ok ip => .ok (ip, after.drop 1)
  | _ =>
    let pre := b0.takeWhile (· != 46)
    let found := pre.length < b0.length
    let isV4 := found && pre.length > 0 && pre.length < 4
    let cs := if isV4 then ipv4Charset else ipv6Charset
    let tok := b0.takeWhile (inCharset cs)
    if tok.isEmpty then .error .ebadstr
    else match fetchString 46 tok with
      | .error e => .error e
      | .ok ip => .ok (ip, b0.dropWhile (inCharset cs))

/-- the optional `:port` (`portstr[6]`) -/
def nsPort (rest : Bytes) : Except Status (Nat × Bytes) :=
  match rest with
  | 58 :: r =>
    let ds := r.takeWhile isDigit
    if ds.isEmpty then .error .ebadstr
    else match fetchString 6 ds with
      | .error e => .error e
      | .ok p => .ok (atoiU16 p, r.dropWhile isDigit)
  | _ => .ok (0, rest)

/-- the optional `%iface` (`ll_iface[IF_NAMESIZE]`) -/
def nsIface (rest : Bytes) : Except Status (Bytes × Bytes) :=
  match rest with
  | 37 :: r =>
    let nm := r.takeWhile isIfaceCh
    if nm.isEmpty then .error .ebadstr
    else match fetchString 16 nm with
      | .error e => .error e
      | .ok i => .ok (i, r.dropWhile isIfaceCh)
  | _ => .ok ([], rest)

/-- `parse_nameserver`: ipaddr | ipv4addr:port | [ipaddr] | [ipaddr]:port, optional %iface -/
def parseNameserver (entry : Bytes) : Except Status SConfig :=
  match nsIp (entry.dropWhile (isWs true)) with
  | .error e => .error e
  | .ok (ip, rest) =>
    match dnsPton .unspec ip with
    | none => .error .ebadstr
    | some a =>
      match nsPort rest with
      | .error e => .error e
      | .ok (port, rest2) =>
        match nsIface rest2 with
        | .error e => .error e
        | .ok (iface, rest3) =>
          if !(rest3.dropWhile (isWs true)).isEmpty then .error .ebadstr
          else .ok { addr := a, udp := port, tcp := port, iface := iface }

/-- fe80::/10 -/
def isLinkLocal : Addr → Bool
  | .v6 o => o.getD 0 0 == 254 && (o.getD 1 0) / 64 % 4 == 2
  | .v4 _ => false

/-- fec0::/10 (`ares_server_blacklisted`) -/
def isBlacklisted : Addr → Bool
  | .v6 o => o.getD 0 0 == 254 && (o.getD 1 0) / 64 % 4 == 3
  | .v4 _ => false

def toU32 (i : Int) : Nat := (i % 4294967296).toNat

/-- `ares_sconfig_linklocal` -/
def linkLocalResolve (ifs : Ifaces) (iface : Bytes) : Option (Bytes × Nat) :=
  if isNum iface then
    let scope := toU32 (atoi iface)
    match ifs.indexToName scope with
    | some nm => some (strcpyTrunc 16 nm, scope)
    | none => none
  else
    let scope := ifs.nameToIndex iface
    if scope = 0 then none else some (strcpyTrunc 16 iface, scope)

/-- `ares_sconfig_append` (allocation succeeds).  The list pointer is `none` (NULL) until the first
    entry is actually stored (repaired tree: the list is created right before the insertion).
    Blacklisted and unusable link-local entries are silently skipped. -/
def sconfigAppend (ifs : Ifaces) (l : Option (List SConfig)) (a : Addr) (udp tcp : Nat) (iface : Bytes) :
    Option (List SConfig) :=
  if isBlacklisted a then l
  else
    let cur := l.getD []
    if isLinkLocal a then
      if iface.isEmpty then l
      else match linkLocalResolve ifs iface with
        | some (nm, scope) => some (cur ++ [{ addr := a, udp := udp, tcp := tcp, iface := nm, scope := scope }])
        | none => l
    else some (cur ++ [{ addr := a, udp := udp, tcp := tcp }])

/-- one entry of the list: URI form first, then the plain form -/
def parseServerEntry (entry : Bytes) : Except Status SConfig :=
  match parseNameserverUri entry with
  | .ok s => .ok s
  | .error _ => parseNameserver entry

/-- one round of the entry loop of `ares_sconfig_append_fromstr` -/
def appendEntry (ifs : Ifaces) (ignoreInvalid : Bool) (acc : Status × Option (List SConfig)) (entry : Bytes) :
    Status × Option (List SConfig) :=
  if acc.1 != .success then acc
  else match parseServerEntry entry with
    | .ok s => (.success, sconfigAppend ifs acc.2 s.addr s.udp s.tcp s.iface)
    | .error e => if ignoreInvalid then acc else (e, acc.2)

/-- `ares_sconfig_append_fromstr(channel, &sconfig, str, ignore_invalid)` -/
def appendFromStr (ifs : Ifaces) (l : Option (List SConfig)) (str : Bytes) (ignoreInvalid : Bool) :
    Status × Option (List SConfig) :=
  if str.isEmpty then (.enomem, l)          -- ares_buf_create_const refuses an empty string
  else (bufSplit [32, 44] SplitFlags.none 0 str).foldl (appendEntry ifs ignoreInvalid) (.success, l)

/-- `ares_sconfig_get_port` -/
def effPort (dflt port : Nat) : Nat :=
  let p := if port = 0 then dflt else port
  if p = 0 then 53 else p

def sameServer (dUdp dTcp : Nat) (a b : SConfig) : Bool :=
  a.addr == b.addr && effPort dTcp a.tcp == effPort dTcp b.tcp && effPort dUdp a.udp == effPort dUdp b.udp

/-- entries that are not duplicates of an earlier entry (`ares_server_isdup`) -/
def dedupSConfig (dUdp dTcp : Nat) : List SConfig → List SConfig → List SConfig
  | [], _ => []
  | s :: r, seen =>
    if seen.any (sameServer dUdp dTcp s) then dedupSConfig dUdp dTcp r (seen ++ [s])
    else s :: dedupSConfig dUdp dTcp r (seen ++ [s])

/-- the server one entry of the new list becomes: an existing server with the same address and ports is
    kept (taking over the interface when the entry names one), otherwise a new one is created -/
def updateOne (dUdp dTcp : Nat) (old : List Server) (s : SConfig) : Server :=
  let u := effPort dUdp s.udp
  let t := effPort dTcp s.tcp
  match old.find? (fun o => o.addr == s.addr && o.tcp == t && o.udp == u) with
  | some o => if s.iface.isEmpty then o else { o with iface := s.iface, scope := s.scope }
  | none => { addr := s.addr, udp := u, tcp := t, iface := s.iface, scope := s.scope }

/-- `ares_servers_update` on the configuration: the channel's servers become the de-duplicated new
    list in order; `ARES_FLAG_PRIMARY` trims to the first. -/
def serversUpdate (dUdp dTcp : Nat) (primary : Bool) (old : List Server) (l : List SConfig) : List Server :=
  let fresh := (dedupSConfig dUdp dTcp l []).map (updateOne dUdp dTcp old)
  if primary then fresh.take 1 else fresh

/-! ### rendering -/

/-- `ares_get_server_addr`; `none` when `ares_uri_set_host` rejects the interface name -/
def serverAddrStr (s : Server) : Option Bytes :=
  let a := ntop s.addr
  if s.tcp ≠ s.udp then
    let hostIn := if s.iface.isEmpty then a else strcpyTrunc 256 (a ++ [37] ++ s.iface)
    match uriSetHost hostIn with
    | .error _ => none
    | .ok host =>
      let isV6 := host.contains 37 || (pton6 host).isSome
      let h := if isV6 then [91] ++ host ++ [93] else host
      let port := if s.udp > 0 then [58] ++ showDec s.udp else []
      -- "dns://" … "?tcpport="
      some ([100, 110, 115, 58, 47, 47] ++ h ++ port ++
            [63, 116, 99, 112, 112, 111, 114, 116, 61] ++ showDec s.tcp)
  else
    let h := if s.addr.isV6 then [91] ++ a ++ [93] else a
    let i := if s.iface.isEmpty then [] else [37] ++ s.iface
    some (h ++ [58] ++ showDec s.udp ++ i)

/-- one server appended to the comma separated list (`none` = NULL) -/
def csvStep (acc : Option Bytes) (s : Server) : Option Bytes :=
  match acc, serverAddrStr s with
  | some b, some x => some (if b.isEmpty then x else b ++ [44] ++ x)
  | _, _ => none

/-- `ares_get_servers_csv` (`none` = NULL) -/
def serversCsv (l : List Server) : Option Bytes := l.foldl csvStep (some [])

end Cares.Text
