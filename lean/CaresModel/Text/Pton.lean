import CaresModel.Text.Basic
/-
Model of `ares_inet_pton` / `ares_inet_net_pton` (src/lib/inet_net_pton.c), `ares_inet_ntop`
(src/lib/inet_ntop.c) and `ares_dns_pton` (src/lib/ares_hosts_file.c).

The C code walks a NUL-terminated string with `ch = *src++`; here the string is a byte list and the
terminator is "the list is empty" (`ch = 0`).  Output buffers are modelled as the list of bytes written
so far plus the remaining size, with the explicit `if (!size--) goto emsgsize` checks kept.
`ENOENT` and `EMSGSIZE` are not distinguished: both make `ares_inet_pton()` return a value ≤ 0, and all
callers modelled here only test `> 0`.
-/
namespace Cares.Text

inductive Addr where
  | v4 (o : List Nat)    -- 4 octets
  | v6 (o : List Nat)    -- 16 octets
  deriving DecidableEq, Repr, Inhabited

inductive Family where
  | inet | inet6 | unspec
  deriving DecidableEq, Repr

def Addr.isV6 : Addr → Bool
  | .v6 _ => true
  | .v4 _ => false

def Addr.octets : Addr → List Nat
  | .v4 o => o
  | .v6 o => o

def hexVal (c : Nat) : Nat :=
  if isDigit c then c - 48 else if isLower c then c - 97 + 10 else c - 65 + 10

/-- `do { n = ch - '0'; tmp = tmp * 10 + n; if (tmp > limit) goto enoent; }
     while ((ch = *src++) != '\0' && isdigit(ch));`   returns (tmp, ch, src) -/
def decNum (limit : Nat) : Nat → Nat → Bytes → Option (Nat × Nat × Bytes)
  | tmp, ch, [] =>
    if tmp * 10 + (ch - 48) > limit then none else some (tmp * 10 + (ch - 48), 0, [])
  | tmp, ch, c :: r =>
    if tmp * 10 + (ch - 48) > limit then none
    else if isDigit c then decNum limit (tmp * 10 + (ch - 48)) c r
    else some (tmp * 10 + (ch - 48), c, r)

/-- the dotted-decimal octet loop; returns (ch, src, size, bytes written); a failure carries the bytes
    already stored through `*dst++` (a failed IPv4 attempt of `ares_dns_pton(AF_UNSPEC)` leaves them in
    the address union) -/
def decOctets : Nat → Nat → Bytes → Nat → List Nat → Except (List Nat) (Nat × Bytes × Nat × List Nat)
  | 0, _, _, _, out => .error out
  | fuel + 1, ch, src, size, out =>
    match decNum 255 0 ch src with
    | none => .error out
    | some (v, ch', src') =>
      if size = 0 then .error out
      else
        let out' := out ++ [v]
        if ch' = 0 || ch' = 47 then .ok (ch', src', size - 1, out')
        else if ch' ≠ 46 then .error out'
        else match src' with
          | [] => .error out'
          | c :: r => if isDigit c then decOctets fuel c r (size - 1) out' else .error out'

/-- the hexadecimal nybble loop after `0x`; returns (ch, src, size, bytes written) -/
def hexLoop : Bytes → Nat → Nat → Nat → List Nat → Except (List Nat) (Nat × Bytes × Nat × List Nat)
  | [], dirty, tmp, size, out =>
    if dirty ≠ 0 then (if size = 0 then .error out else .ok (0, [], size - 1, out ++ [(tmp * 16) % 256]))
    else .ok (0, [], size, out)
  | c :: r, dirty, tmp, size, out =>
    if isXDigit c then
      let n := hexVal c
      let tmp' := if dirty = 0 then n else tmp * 16 + n
      if dirty + 1 = 2 then
        (if size = 0 then .error out else hexLoop r 0 tmp' (size - 1) (out ++ [tmp' % 256]))
      else hexLoop r 1 tmp' size out
    else
      if dirty ≠ 0 then (if size = 0 then .error out else .ok (c, r, size - 1, out ++ [(tmp * 16) % 256]))
      else .ok (c, r, size, out)

/-- class-based width when no `/bits` was given -/
def classBits (out : List Nat) : Nat :=
  let first := out.headD 0
  let b := if first ≥ 240 then 32 else if first ≥ 224 then 8 else if first ≥ 192 then 24
           else if first ≥ 128 then 16 else 8
  let b := if b < out.length * 8 then out.length * 8 else b
  if b = 8 && first = 224 then 4 else b

def padTo (n : Nat) (l : List Nat) : List Nat := l ++ List.replicate (n - l.length) 0

/-- `ares_inet_net_pton_ipv4(src, dst, size)`: `.ok (bits, dst contents)`, or `.error dst` = what the
    zero-filled destination holds after the failed attempt -/
def netPton4 (src0 : Bytes) (size0 : Nat) : Except (List Nat) (Nat × List Nat) :=
  let ch := src0.headD 0
  let src := src0.drop 1
  let r : Except (List Nat) (Nat × Bytes × Nat × List Nat) :=
    if ch == 48 && (src.headD 0 == 120 || src.headD 0 == 88) && isXDigit ((src.drop 1).headD 0) then
      (if size0 = 0 then .error [] else hexLoop (src.drop 1) 0 0 size0 [])
    else if isDigit ch then decOctets (src0.length + 1) ch src size0 []
    else .error []
  match r with
  | .error o => .error (padTo size0 o)
  | .ok (ch, src, size, out) =>
    let r2 : Option (Option Nat × Nat) :=
      if ch == 47 && isDigit (src.headD 0) && !out.isEmpty then
        match decNum 32 0 (src.headD 0) (src.drop 1) with
        | none => none
        | some (b, ch', _) => if ch' ≠ 0 then none else some (some b, 0)
      else some (none, ch)
    match r2 with
    | none => .error (padTo size0 out)
    | some (explicit, ch) =>
      if ch ≠ 0 then .error (padTo size0 out)
      else if out.isEmpty then .error (padTo size0 out)
      else
        let bits := match explicit with
          | some b => b
          | none => classBits out
        if (bits + 7) / 8 > out.length + size then .error (padTo size0 out)
        else .ok (bits, padTo size0 out)

/-- `ares_inet_pton(AF_INET, src, dst) > 0` -/
def pton4 (src : Bytes) : Option (List Nat) :=
  match netPton4 src 4 with
  | .ok r => some r.2
  | .error _ => none

structure P6 where
  out : List Nat := []
  colonp : Option Nat := none
  sawX : Bool := false
  cnt : Nat := 0
  val : Nat := 0

def pton6Loop : Bytes → Bytes → P6 → Option P6
  | [], _, st => some st
  | ch :: src, curtok, st =>
    if isXDigit ch then
      if st.cnt ≥ 4 then none
      else
        let val := st.val * 16 + hexVal ch
        if val > 65535 then none
        else pton6Loop src curtok { st with val := val, sawX := true, cnt := st.cnt + 1 }
    else if ch = 58 then
      if !st.sawX then
        (if st.colonp.isSome then none else pton6Loop src src { st with colonp := some st.out.length })
      else if src.isEmpty then none
      else if st.out.length + 2 > 16 then none
      else pton6Loop src src
        { st with out := st.out ++ [st.val / 256 % 256, st.val % 256], sawX := false, cnt := 0, val := 0 }
    else if ch = 46 && st.out.length + 4 ≤ 16 then
      match netPton4 curtok 4 with
      | .ok (bits, v4) => if bits > 0 then some { st with out := st.out ++ v4, sawX := false } else none
      | .error _ => none
    else none

/-- `ares_inet_pton6(src, dst)` -/
def inetPton6 (src0 : Bytes) : Option (List Nat) :=
  let start : Option Bytes :=
    match src0 with
    | 58 :: r => (match r with
        | 58 :: _ => some r
        | _ => none)
    | _ => some src0
  match start with
  | none => none
  | some src =>
    match pton6Loop src src {} with
    | none => none
    | some st =>
      let r1 : Option (List Nat) :=
        if st.sawX then
          (if st.out.length + 2 > 16 then none else some (st.out ++ [st.val / 256 % 256, st.val % 256]))
        else some st.out
      match r1 with
      | none => none
      | some out =>
        match st.colonp with
        | some c =>
          if out.length = 16 then none
          else some (out.take c ++ List.replicate (16 - out.length) 0 ++ out.drop c)
        | none => if out.length = 16 then some out else none

/-- `getbits()` -/
def getbits (s : Bytes) : Option Nat :=
  if s.isEmpty then none
  else if !s.all isDigit then none
  else if s.length > 1 && s.headD 0 = 48 then none
  else
    -- `if (val > 128) return 0` inside the loop: any prefix above 128 fails, so does the whole
    if decVal (s.take 4) > 128 || s.length > 3 then none else some (decVal s)

/-- `ares_inet_net_pton_ipv6(src, dst, 16)`: (bits, dst) where `dst0` is what the 16 destination bytes
    held before (only `(bits + 7) / 8` bytes are copied) -/
def netPton6 (src : Bytes) (dst0 : List Nat := List.replicate 16 0) : Option (Nat × List Nat) :=
  if src.length ≥ 51 then none
  else
    let buf := src.takeWhile (· != 47)
    let rest := src.dropWhile (· != 47)
    match inetPton6 buf with
    | none => none
    | some a =>
      let bits? : Option Nat := match rest with
        | [] => some 128
        | _ :: sep => getbits sep
      match bits? with
      | none => none
      | some bits =>
        let bytes := (bits + 7) / 8
        some (bits, a.take bytes ++ dst0.drop bytes)

def pton6 (src : Bytes) : Option (List Nat) := (netPton6 src).map (·.2)

/-- `ares_dns_pton(ipaddr, addr, &len)` with `addr->family` preset and the address part zeroed -/
def dnsPton (fam : Family) (s : Bytes) : Option Addr :=
  match fam with
  | .inet => (pton4 s).map Addr.v4
  | .inet6 => (pton6 s).map Addr.v6
  | .unspec =>
    match netPton4 s 4 with
    | .ok r => some (.v4 r.2)
    | .error garbage =>
      -- the failed IPv4 attempt wrote into the first bytes of the address union
      (netPton6 s (padTo 16 garbage)).map (fun r => Addr.v6 r.2)

/-! ### ntop -/

def showDecAux : Nat → Nat → Bytes → Bytes
  | 0, _, acc => acc
  | f + 1, n, acc => if n < 10 then (48 + n) :: acc else showDecAux f (n / 10) ((48 + n % 10) :: acc)

/-- `%u` / `ares_buf_append_num_dec(buf, n, 0)` -/
def showDec (n : Nat) : Bytes := showDecAux 40 n []

def hexDigit (d : Nat) : Nat := if d < 10 then 48 + d else 97 + d - 10

def showHexAux : Nat → Nat → Bytes → Bytes
  | 0, _, acc => acc
  | f + 1, n, acc => if n < 16 then hexDigit n :: acc else showHexAux f (n / 16) (hexDigit (n % 16) :: acc)

/-- `%x` -/
def showHex (n : Nat) : Bytes := showHexAux 40 n []

/-- `inet_ntop4` -/
def ntop4 (o : List Nat) : Bytes :=
  showDec (o.getD 0 0) ++ [46] ++ showDec (o.getD 1 0) ++ [46] ++ showDec (o.getD 2 0) ++ [46] ++
    showDec (o.getD 3 0)

/-- the 8 words of an IPv6 address -/
def words6 (o : List Nat) : List Nat :=
  (List.range 8).map (fun i => o.getD (2 * i) 0 * 256 + o.getD (2 * i + 1) 0)

/-- longest run of zero words: scan state (best, cur) as (base, len) options -/
def bestRun (ws : List Nat) : Option (Nat × Nat) :=
  let step := fun (st : Option (Nat × Nat) × Option (Nat × Nat)) (iw : Nat × Nat) =>
    let (best, cur) := st
    let (i, w) := iw
    if w = 0 then
      match cur with
      | none => (best, some (i, 1))
      | some (b, l) => (best, some (b, l + 1))
    else
      match cur with
      | none => (best, none)
      | some (b, l) =>
        (match best with
          | none => (some (b, l), none)
          | some (bb, bl) => if l > bl then (some (b, l), none) else (some (bb, bl), none))
  let (best, cur) := (ws.zipIdx.map (fun p => (p.2, p.1))).foldl step (none, none)
  let best := match cur with
    | none => best
    | some (b, l) =>
      (match best with
        | none => some (b, l)
        | some (bb, bl) => if l > bl then some (b, l) else some (bb, bl))
  match best with
  | some (b, l) => if l < 2 then none else some (b, l)
  | none => none

def ntop6Loop (o : List Nat) (ws : List Nat) (best : Option (Nat × Nat)) : Nat → Nat → Bytes → Bytes
  | 0, _, acc => acc
  | fuel + 1, i, acc =>
    if i ≥ 8 then acc
    else
      let inBest := match best with
        | some (b, l) => b ≤ i && i < b + l
        | none => false
      if inBest then
        let acc := if (best.map (·.1)) = some i then acc ++ [58] else acc
        ntop6Loop o ws best fuel (i + 1) acc
      else
        let acc := if i ≠ 0 then acc ++ [58] else acc
        let encap := match best with
          | some (b, l) => i = 6 && b = 0 && (l = 6 || (l = 7 && ws.getD 7 0 ≠ 1) || (l = 5 && ws.getD 5 0 = 65535))
          | none => false
        if encap then acc ++ ntop4 (o.drop 12)
        else ntop6Loop o ws best fuel (i + 1) (acc ++ showHex (ws.getD i 0))

/-- `inet_ntop6` -/
def ntop6 (o : List Nat) : Bytes :=
  let ws := words6 o
  let best := bestRun ws
  let body := ntop6Loop o ws best 9 0 []
  match best with
  | some (b, l) => if b + l = 8 then body ++ [58] else body
  | none => body

/-- `ares_inet_ntop` -/
def ntop : Addr → Bytes
  | .v4 o => ntop4 o
  | .v6 o => ntop6 o

end Cares.Text
