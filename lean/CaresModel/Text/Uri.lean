import CaresModel.Text.Pton
/-
Model of the parsing half of `src/lib/util/ares_uri.c` (`ares_uri_parse_buf`) to the extent the server
list needs it: success / failure on arbitrary bytes, and scheme, host, port and query keys of a
successfully parsed URI.  A tiny cursor (`Cur`) stands for the tagged `ares_buf_t`.

User name, password, path and fragment are checked (they decide success) but not kept.
-/
namespace Cares.Text

/-- a read cursor over constant bytes with one tag (`ares_buf_tag`) -/
structure Cur where
  data : Bytes
  off : Nat := 0
  tag : Nat := 0
  deriving Repr

namespace Cur
def rem (c : Cur) : Bytes := c.data.drop c.off
def len (c : Cur) : Nat := c.data.length - c.off
/-- `ares_buf_consume` (no change when too short) -/
def consume (c : Cur) (n : Nat) : Cur := if c.len < n then c else { c with off := c.off + n }
def tagNow (c : Cur) : Cur := { c with tag := c.off }
def rollback (c : Cur) : Cur := { c with off := c.tag }
def tagged (c : Cur) : Bytes := (c.data.drop c.tag).take (c.off - c.tag)
def peek (c : Cur) : Option Nat := c.rem.head?
/-- `ares_buf_consume_until_charset`: `none` = SIZE_MAX (required but absent; nothing consumed) -/
def untilCharset (c : Cur) (cs : List Nat) (require : Bool) : Option Nat × Cur :=
  let r := c.rem
  let pos := (r.takeWhile (fun b => !cs.contains b)).length
  let found := pos < r.length
  if require && !found then (none, c)
  else (some pos, c.consume pos)
end Cur

/-- index of the first occurrence of `seq` (`ares_memmem`) -/
def findSeq (seq : Bytes) : Bytes → Option Nat
  | [] => if seq.isEmpty then some 0 else none
  | c :: r =>
    if (c :: r).take seq.length == seq then some 0
    else (findSeq seq r).map (· + 1)

def isSubdelim (c : Nat) : Bool :=
  c == 33 || c == 36 || c == 38 || c == 39 || c == 40 || c == 41 || c == 42 || c == 43 || c == 44 ||
  c == 59 || c == 61
def isUnreserved (c : Nat) : Bool := c == 45 || c == 46 || c == 95 || c == 126 || isAlpha c || isDigit c
def isSchemeCh (c : Nat) : Bool := c == 43 || c == 45 || c == 46 || isAlpha c || isDigit c
def isAuthorityCh (c : Nat) : Bool :=
  isUnreserved c || isSubdelim c || c == 37 || c == 91 || c == 93 || c == 64 || c == 58
def isPathCh (c : Nat) : Bool := c == 58 || c == 64 || c == 47 || isUnreserved c || isSubdelim c
def isPathEncCh (c : Nat) : Bool := isPathCh c || c == 37
def isQueryCh (c : Nat) : Bool := c == 47 || c == 63 || (isPathCh c && c != 38 && c != 61)
def isQueryEncCh (c : Nat) : Bool := isQueryCh c || c == 37
def isFragmentCh (c : Nat) : Bool := c == 47 || c == 63 || isPathCh c
def isFragmentEncCh (c : Nat) : Bool := isFragmentCh c || c == 37

/-- `ares_uri_str_isvalid(str, max_len, ischr)`: stops at a NUL -/
def strIsValid (p : Nat → Bool) (s : Bytes) : Bool := (cstr s).all p

/-- `ares_uri_decode_inplace` on a C string -/
def uriDecode (isQuery printable : Bool) : Nat → Bytes → Bytes → Except Status Bytes
  | 0, _, acc => .ok acc.reverse
  | fuel + 1, s, acc =>
    match s with
    | [] => .ok acc.reverse
    | c :: r =>
      if isQuery && c = 43 then uriDecode isQuery printable fuel r (32 :: acc)
      else if c ≠ 37 then uriDecode isQuery printable fuel r (c :: acc)
      else match r with
        | a :: b :: r2 =>
          if isXDigit a && isXDigit b then
            let v := hexVal a * 16 + hexVal b
            if printable && !isPrint v then .error .ebadstr
            else uriDecode isQuery printable fuel r2 (v :: acc)
          else .error .ebadstr
        | _ => .error .ebadstr

def decode (isQuery : Bool) (s : Bytes) : Except Status Bytes := uriDecode isQuery true (s.length + 1) s []

/-- `ares_buf_tag_fetch_strdup`: printable or `EBADSTR` -/
def fetchStrdup (b : Bytes) : Except Status Bytes := if allPrint b then .ok b else .error .ebadstr

structure Uri where
  scheme : Bytes := []
  host : Bytes := []
  port : Nat := 0
  query : List (Bytes × Option Bytes) := []
  deriving Repr

/-- `ares_htable_dict_insert` (keys compare case-insensitively; a later value replaces) -/
def dictInsert (d : List (Bytes × Option Bytes)) (k : Bytes) (v : Option Bytes) : List (Bytes × Option Bytes) :=
  if d.any (fun p => strCaseEq p.1 k) then d.map (fun p => if strCaseEq p.1 k then (p.1, v) else p)
  else d ++ [(k, v)]

def dictGet (d : List (Bytes × Option Bytes)) (k : Bytes) : Option Bytes :=
  match d.find? (fun p => strCaseEq p.1 k) with
  | some (_, v) => v
  | none => none

/-- `ares_uri_set_host` -/
def uriSetHost (host : Bytes) : Except Status Bytes :=
  if host.isEmpty || host.length ≥ 256 then .error .eformerr
  else
    let hoststr := host.takeWhile (· != 37)
    let scope? : Option Bytes := match host.dropWhile (· != 37) with
      | [] => none
      | _ :: s => some s
    if scope?.isSome && !isAlnum (scope?.getD []) then .error .ebadname
    else match dnsPton .unspec hoststr with
      | some a =>
        if scope?.isSome && !a.isV6 then .error .ebadname
        else match scope? with
          | some sc => .ok (strcpyTrunc 256 (ntop a ++ [37] ++ sc))
          | none => .ok (ntop a)
      | none => if isHostname host then .ok host else .error .ebadname

/-- `ares_uri_parse_userinfo` on the authority cursor -/
def uriUserinfo (c : Cur) : Except Status Cur :=
  let c := c.tagNow
  match c.untilCharset [64] true with
  | (none, _) => .ok c
  | (some userinfoLen, _) =>
    let c := c.tagNow          -- rollback to the tag, tag again
    let (ulen?, c1) := c.untilCharset [58] true
    let hasPw := match ulen? with
      | some u => u < userinfoLen
      | none => false
    let r1 : Except Status Cur :=
      if hasPw then
        match fetchStrdup c1.tagged with
        | .error e => .error e
        | .ok t =>
          match decode false t with
          | .error e => .error e
          | .ok u => if u.isEmpty then .error .ebadstr else .ok (c1.consume 1)
      else .ok c1
    match r1 with
    | .error e => .error e
    | .ok c2 =>
      let c3 := c2.tagNow
      let (_, c4) := c3.untilCharset [64] true
      match fetchStrdup c4.tagged with
      | .error e => .error e
      | .ok t =>
        match decode false t with
        | .error e => .error e
        | .ok u =>
          if !hasPw && u.isEmpty then .error .ebadstr
          else .ok (c4.consume 1)

/-- `ares_uri_parse_hostport` -/
def uriHostport (c : Cur) : Except Status (Bytes × Nat) :=
  match c.peek with
  | none => .error .ebadresp
  | some b =>
    let r : Except Status (Bytes × Cur) :=
      if b = 91 then
        let c1 := (c.consume 1).tagNow
        match c1.untilCharset [93] true with
        | (none, _) => .error .ebadstr
        | (some _, c2) =>
          match fetchString 256 c2.tagged with
          | .error e => .error e
          | .ok h => .ok (h, c2.consume 1)
      else
        let c1 := c.tagNow
        let (_, c2) := c1.untilCharset [58] false
        match fetchString 256 c2.tagged with
        | .error e => .error e
        | .ok h => .ok (h, c2)
    match r with
    | .error e => .error e
    | .ok (h, c3) =>
      match uriSetHost h with
      | .error e => .error e
      | .ok host =>
        if c3.len = 0 then .ok (host, 0)
        else if c3.peek ≠ some 58 then .error .ebadstr
        else
          let c4 := c3.consume 1
          let p := c4.rem
          if p.length = 0 || p.length > 5 then .error .ebadstr
          else if !isNum (cstr p) || (cstr p).length ≠ p.length then .error .ebadstr
          else .ok (host, atoiU16 p)

/-- `ares_uri_parse_query_buf` -/
def uriQueryLoop : Nat → Cur → List (Bytes × Option Bytes) → Except Status (List (Bytes × Option Bytes))
  | 0, _, d => .ok d
  | fuel + 1, c, d =>
    if c.len = 0 then .ok d
    else
      let c := c.tagNow
      let (klen, c1) := c.untilCharset [38, 61] false
      if klen = some 0 then .error .ebadstr
      else
        let b := c1.peek.getD 0
        match fetchStrdup c1.tagged with
        | .error e => .error e
        | .ok kraw =>
          if !strIsValid isQueryEncCh kraw then .error .ebadstr
          else match decode true kraw with
            | .error e => .error e
            | .ok key =>
              let rv : Except Status (Option Bytes × Cur) :=
                if b = 61 then
                  let c2 := (c1.consume 1).tagNow
                  let (vlen, c3) := c2.untilCharset [38] false
                  if vlen.getD 0 > 0 then
                    match fetchStrdup c3.tagged with
                    | .error e => .error e
                    | .ok vraw =>
                      if !strIsValid isQueryEncCh vraw then .error .ebadstr
                      else match decode true vraw with
                        | .error e => .error e
                        | .ok v => .ok (some v, c3)
                  else .ok (none, c3)
                else .ok (none, c1)
              match rv with
              | .error e => .error e
              | .ok (val, c4) =>
                let c5 := if b ≠ 0 then c4.consume 1 else c4
                if key.isEmpty then .error .eformerr
                else uriQueryLoop fuel c5 (dictInsert d key val)

/-- `ares_uri_parse_buf` -/
def uriParse (bs : Bytes) : Except Status Uri :=
  -- scheme
  match findSeq [58, 47, 47] bs with
  | none => .error .ebadstr
  | some n =>
    if n > 16 then .error .ebadstr
    else match fetchString 16 (bs.take n) with
      | .error e => .error e
      | .ok sch =>
        if sch.isEmpty || !isAlpha (sch.headD 0) || !sch.all isSchemeCh then .error .ebadstr
        else
          let c : Cur := { data := bs, off := n + 3 }
          -- authority
          let c := c.tagNow
          let (alen, c1) := c.untilCharset [47, 63, 35] false
          if alen = some 0 then .error .ebadstr
          else
            let auth := c1.tagged
            if !strIsValid isAuthorityCh auth then .error .ebadstr
            else match uriUserinfo { data := auth } with
              | .error e => .error e
              | .ok ac =>
                match uriHostport ac with
                | .error e => .error e
                | .ok (host, port) =>
                  -- path
                  let rp : Except Status Cur :=
                    if c1.peek = some 47 then
                      let c2 := c1.tagNow
                      let (_, c3) := c2.untilCharset [63, 35] false
                      match fetchStrdup c3.tagged with
                      | .error e => .error e
                      | .ok p =>
                        if !strIsValid isPathEncCh p then .error .ebadstr
                        else match decode false p with
                          | .error e => .error e
                          | .ok _ => .ok c3
                    else .ok c1
                  match rp with
                  | .error e => .error e
                  | .ok c4 =>
                    -- query
                    let rq : Except Status (List (Bytes × Option Bytes) × Cur) :=
                      if c4.peek = some 63 then
                        let c5 := (c4.consume 1).tagNow
                        let (qlen, c6) := c5.untilCharset [35] false
                        if qlen = some 0 then .ok ([], c6)
                        else match uriQueryLoop (c6.tagged.length + 1) { data := c6.tagged } [] with
                          | .error e => .error e
                          | .ok d => .ok (d, c6)
                      else .ok ([], c4)
                    match rq with
                    | .error e => .error e
                    | .ok (q, c7) =>
                      -- fragment
                      let rf : Except Status Unit :=
                        if c7.peek = some 35 then
                          let f := (c7.consume 1).rem
                          if f.isEmpty then .ok ()
                          else if !allPrint f then .error .ebadstr
                          else if !strIsValid isFragmentEncCh f then .error .ebadstr
                          else match decode false f with
                            | .error e => .error e
                            | .ok _ => .ok ()
                        else .ok ()
                      match rf with
                      | .error e => .error e
                      | .ok _ => .ok { scheme := strLower sch, host := host, port := port, query := q }

end Cares.Text
