import CaresModel.Text.Basic
/-
Model of `ares_buf_split()` / `ares_buf_split_str()` (src/lib/str/ares_buf.c) and `ares_strsplit()`
(src/lib/str/ares_strsplit.c).

`splitLoop` follows the C `while (ares_buf_len(buf))` loop: on every round but the first one delimiter
byte is thrown away, then either the rest of the buffer (max_sections reached) or the bytes up to the
next delimiter are taken as the section, trimmed, and kept unless empty / a duplicate.
`ARES_BUF_SPLIT_KEEP_DELIMS` is not used by any caller modelled here and is left out.
-/
namespace Cares.Text

structure SplitFlags where
  ltrim : Bool := false
  rtrim : Bool := false
  allowBlank : Bool := false
  noDup : Bool := false
  ci : Bool := false
  deriving Repr, DecidableEq

/-- `ARES_BUF_SPLIT_TRIM` -/
def SplitFlags.trim : SplitFlags := { ltrim := true, rtrim := true }
/-- `ARES_BUF_SPLIT_NONE` -/
def SplitFlags.none : SplitFlags := {}

def isDelim (delims : List Nat) (c : Nat) : Bool := delims.contains c

def trimSec (f : SplitFlags) (s : Bytes) : Bytes :=
  let s1 := if f.ltrim then s.dropWhile (isWs true) else s
  if f.rtrim then (s1.reverse.dropWhile (isWs true)).reverse else s1

/-- `ares_buf_split_isduplicate` -/
def isDupSec (f : SplitFlags) (acc : List Bytes) (v : Bytes) : Bool :=
  acc.any (fun p => p.length == v.length && (if f.ci then strCaseEq p v else p == v))

def keepSec (f : SplitFlags) (acc : List Bytes) (v : Bytes) : Bool :=
  (!v.isEmpty || f.allowBlank) && !(f.noDup && isDupSec f acc v)

def splitLoop (delims : List Nat) (f : SplitFlags) (maxS : Nat) :
    Nat → Bool → Bytes → List Bytes → List Bytes
  | 0, _, _, acc => acc
  | fuel + 1, first, rest, acc =>
    if rest.isEmpty then acc
    else
      let rest1 := if first then rest else rest.drop 1
      let cut := maxS != 0 && acc.length ≥ maxS - 1
      let sec := if cut then rest1 else rest1.takeWhile (fun c => !isDelim delims c)
      let rest2 := if cut then [] else rest1.dropWhile (fun c => !isDelim delims c)
      let v := trimSec f sec
      let acc' := if keepSec f acc v then acc ++ [v] else acc
      splitLoop delims f maxS fuel false rest2 acc'

/-- `ares_buf_split(buf, delims, flags, max_sections)` (allocation succeeds) -/
def bufSplit (delims : List Nat) (f : SplitFlags) (maxS : Nat) (bs : Bytes) : List Bytes :=
  splitLoop delims f maxS (bs.length + 1) true bs []

/-- `ares_buf_split_str()`: every section is copied with `ares_buf_fetch_str_dup`, which rejects an
    empty section (`EBADRESP`) and a non-printable one (`EBADSTR`); the first failure fails the call. -/
def splitStr (delims : List Nat) (f : SplitFlags) (maxS : Nat) (bs : Bytes) : Except Status (List Bytes) :=
  (bufSplit delims f maxS bs).foldl
    (fun r sec => match r with
      | .error e => .error e
      | .ok acc =>
        if sec.isEmpty then .error .ebadresp
        else if !allPrint sec then .error .ebadstr
        else .ok (acc ++ [sec]))
    (.ok [])

/-- `ares_strsplit(in, delms, &n)`: `none` is the NULL return — for an empty input
    (`ares_buf_create_const` refuses it), for a non-printable token, and for "no token at all"
    (`ares_array_finish` of an empty array). -/
def strsplit (s : Bytes) (delims : List Nat) : Option (List Bytes) :=
  if s.isEmpty then none
  else match splitStr delims { noDup := true, ci := true } 0 s with
    | .error _ => none
    | .ok [] => none
    | .ok l => some l

/-! ### specification used by the theorems: plain splitting at delimiters -/

/-- `n` delimiters give `n + 1` sections -/
def rawSplit (isD : Nat → Bool) : Bytes → List Bytes
  | [] => [[]]
  | c :: cs =>
    if isD c then [] :: rawSplit isD cs
    else match rawSplit isD cs with
      | [] => [[c]]
      | s :: ss => (c :: s) :: ss

/-- the lines `ares_sysconfig_process_buf` hands to the line callback: split at LF, trimmed,
    empty ones dropped -/
def linesSpec (bs : Bytes) : List Bytes :=
  ((rawSplit (· == 10) bs).map (trimSec SplitFlags.trim)).filter (fun l => !l.isEmpty)

/-- the real thing -/
def lines (bs : Bytes) : List Bytes := bufSplit [10] SplitFlags.trim 0 bs

end Cares.Text
