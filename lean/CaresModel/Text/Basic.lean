/-
Common definitions for the configuration-text models (C15, C12, C16).

Bytes are modelled as `Nat` (the driver only feeds values < 256; every theorem is stated for all
lists of naturals, a superset of all byte strings).  C strings are byte lists without the terminating
NUL; where the C code takes a `const char *` from the outside world the driver truncates at the first 0.

Character classes follow `src/lib/include/ares_str.h` (`ares_isprint`, `ares_isspace`, …) and
`ares_is_whitespace()` of `ares_buf.c`.
-/
namespace Cares.Text

abbrev Bytes := List Nat

/-- `ares_status_t` (include/ares.h) -/
inductive Status where
  | success | enodata | eformerr | eservfail | enotfound | enotimp | erefused | ebadquery | ebadname
  | ebadfamily | ebadresp | econnrefused | etimeout | eof | efile | enomem | edestruction | ebadstr
  | ebadflags | enoname | ebadhints | enotinitialized | eloadiphlpapi | eaddrgetnetworkparams
  | ecancelled | eservice | enoserver
  deriving DecidableEq, Repr, Inhabited

/-- the class printed by the harness (`stclass`) -/
def Status.cls : Status → String
  | .success => "ok"
  | .enomem => "nomem"
  | .enotfound => "notfound"
  | _ => "err"

def isDigit (c : Nat) : Bool := 48 ≤ c && c ≤ 57
def isUpper (c : Nat) : Bool := 65 ≤ c && c ≤ 90
def isLower (c : Nat) : Bool := 97 ≤ c && c ≤ 122
def isAlpha (c : Nat) : Bool := isLower c || isUpper c
def isXDigit (c : Nat) : Bool := isDigit c || (97 ≤ c && c ≤ 102) || (65 ≤ c && c ≤ 70)
/-- `ares_isprint` -/
def isPrint (c : Nat) : Bool := 32 ≤ c && c ≤ 126
/-- `ares_is_whitespace(c, include_linefeed)` of ares_buf.c -/
def isWs (lf : Bool) (c : Nat) : Bool :=
  c == 13 || c == 9 || c == 32 || c == 11 || c == 12 || (lf && c == 10)
/-- `ares_isspace` (same set as `isWs true`) -/
def isSpace (c : Nat) : Bool := isWs true c
/-- `ares_tolower` (ASCII only) -/
def toLower (c : Nat) : Nat := if isUpper c then c + 32 else c
/-- `ares_is_hostnamech`: [A-Za-z0-9-*._/] -/
def isHostnameCh (c : Nat) : Bool :=
  isAlpha c || isDigit c || c == 45 || c == 46 || c == 95 || c == 47 || c == 42

def allPrint (s : Bytes) : Bool := s.all isPrint
/-- `ares_is_hostname` -/
def isHostname (s : Bytes) : Bool := s.all isHostnameCh
/-- `ares_str_isnum`: non-empty, digits only -/
def isNum (s : Bytes) : Bool := !s.isEmpty && s.all isDigit
/-- `ares_str_isalnum` -/
def isAlnum (s : Bytes) : Bool := !s.isEmpty && s.all (fun c => isDigit c || isAlpha c)
/-- `ares_strcaseeq` -/
def strCaseEq (a b : Bytes) : Bool := a.map toLower == b.map toLower
/-- `ares_str_lower` -/
def strLower (a : Bytes) : Bytes := a.map toLower

/-- C string seen through a `const char *`: everything before the first NUL -/
def cstr (s : Bytes) : Bytes := s.takeWhile (· != 0)

/-- `ares_str_ltrim` / `ares_str_rtrim` / `ares_str_trim` (by `ares_isspace`) -/
def ltrim (s : Bytes) : Bytes := s.dropWhile isSpace
def rtrim (s : Bytes) : Bytes := (s.reverse.dropWhile isSpace).reverse
def trim (s : Bytes) : Bytes := rtrim (ltrim s)

/-- `ares_strcpy(dest, src, dest_size)`: silent truncation to `dest_size - 1` bytes -/
def strcpyTrunc (cap : Nat) (s : Bytes) : Bytes := s.take (cap - 1)

/-- `ares_buf_tag_fetch_string(buf, str, len)` on the tagged bytes: the fixed-size destination check
    (`EFORMERR` when the bytes plus the terminator do not fit) comes first, then the printable check
    (`EBADSTR`). -/
def fetchString (cap : Nat) (tagged : Bytes) : Except Status Bytes :=
  if cap = 0 then .error .eformerr
  else if cap - 1 < tagged.length then .error .eformerr
  else if !allPrint tagged then .error .ebadstr
  else .ok tagged

/-- decimal value of a digit string (no sign, no limit) -/
def decVal (s : Bytes) : Nat := s.foldl (fun acc c => acc * 10 + (c - 48)) 0

/-- two's-complement reinterpretation helpers -/
def toInt32 (n : Nat) : Int :=
  let m := n % 4294967296
  if m < 2147483648 then (m : Int) else (m : Int) - 4294967296

/-- optional sign in front of a number: (negative?, rest) -/
def splitSign (s : Bytes) : Bool × Bytes :=
  match s with
  | 45 :: r => (true, r)
  | 43 :: r => (false, r)
  | r => (false, r)

/-- `strtol(s, NULL, 10)` as glibc does it: leading `isspace`, optional sign, digits, clamped to the
    `long` range (64 bit).  Returns the mathematical value after clamping. -/
def strtol10 (s : Bytes) : Int :=
  let s1 := s.dropWhile isSpace
  let neg := (splitSign s1).1
  let s2 := (splitSign s1).2
  let v := decVal (s2.takeWhile isDigit)
  if neg then (if v > 9223372036854775808 then -9223372036854775808 else -(v : Int))
  else (if v > 9223372036854775807 then 9223372036854775807 else (v : Int))

/-- `atoi(s)` = `(int)strtol(s, NULL, 10)` -/
def atoi (s : Bytes) : Int :=
  let v := strtol10 s
  toInt32 (v % 18446744073709551616).toNat

/-- `(unsigned short)atoi(s)` -/
def atoiU16 (s : Bytes) : Nat := ((atoi s) % 65536).toNat

/-- `(unsigned int)strtoul(s, NULL, 10)` on LP64 glibc: leading space, optional sign (a minus sign
    negates modulo 2^64), clamped to `ULONG_MAX` on overflow, then truncated to 32 bits. -/
def strtoulU32 (s : Bytes) : Nat :=
  let s1 := s.dropWhile isSpace
  let neg := (splitSign s1).1
  let s2 := (splitSign s1).2
  let v := decVal (s2.takeWhile isDigit)
  let v64 := if v > 18446744073709551615 then 18446744073709551615
             else if neg then (18446744073709551616 - v) % 18446744073709551616 else v
  v64 % 4294967296

/-- number of set bits of an octet (`ares_count_bits_u8`) -/
def popcount8 (b : Nat) : Nat :=
  (List.range 8).foldl (fun acc i => acc + (b / 2 ^ i) % 2) 0

end Cares.Text
