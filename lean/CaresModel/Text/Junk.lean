import CaresModel.Text.Resolv
import CaresModel.Text.Hosts
/-
The explicit, decidable "junk line" predicates of C15.  A junk line is one the parser is supposed to
ignore: a comment, a line without keyword or value, a part that does not fit its fixed-size buffer or is
not printable, an unknown keyword, or a known keyword whose value carries nothing usable.
State-independent on purpose (`domain x` after a `search` line is ignored too, but is not *junk*).
-/
namespace Cares.Text

/-- an option token of an `options` line that changes nothing: unsplittable, unknown key, or
    `timeout`/`attempts` (and synonyms) with a value that reads as 0 -/
def optionNoop (opt : Bytes) : Bool :=
  match splitStr [58] SplitFlags.trim 2 opt with
  | .error _ => true
  | .ok [] => true
  | .ok (key :: rest) =>
    let valint := optValint rest
    if key == kNdots then false
    else if key == kRetrans || key == kTimeout then valint == 0
    else if key == kRetry || key == kAttempts then valint == 0
    else if key == kRotate then false
    else if key == kUseVc || key == kUsevc then false
    else true

/-- a server-list entry that contributes nothing: it does not parse, or it is a blacklisted address -/
def serverEntryNoop (entry : Bytes) : Bool :=
  match parseServerEntry entry with
  | .error _ => true
  | .ok s => isBlacklisted s.addr

def lookupNoop (raw : Bytes) : Bool :=
  match splitStr [32, 9] SplitFlags.trim 0 raw with
  | .error _ => true
  | .ok ws => ws.all (fun w => (lookupLetter w).isNone)

/-- junk line of resolv.conf -/
def isJunk (line : Bytes) : Bool :=
  match resolvSplit line with
  | none => true
  | some (option, value, raw) =>
    if option == kDomain then value.all (fun c => c == 44 || c == 32)
    else if option == kLookup || option == kHostresorder then lookupNoop raw
    else if option == kSearch then value.all (fun c => c == 44 || c == 32)
    else if option == kNameserver then (bufSplit [32, 44] SplitFlags.none 0 value).all serverEntryNoop
    else if option == kSortlist then
      (parseSortlist value).1 != .enomem && ((parseSortlist value).1 != .success || (parseSortlist value).2.isEmpty)
    else if option == kOptions then (bufSplit [32, 9] SplitFlags.trim 0 value).all optionNoop
    else true

/-- junk line of nsswitch.conf (`sep = ':'`, values split at blanks) or netsvc.conf / svc.conf
    (`sep = '='`, values split at commas) -/
def dbJunk (sep : Nat) (vseps : List Nat) (line : Bytes) : Bool :=
  match line with
  | 35 :: _ => true
  | _ =>
    match bufSplit [sep] SplitFlags.trim 2 line with
    | [k, v] =>
      (match bufFetchString 32 k with
        | .error _ => true
        | .ok option =>
          if option == kHosts then
            (match splitStr vseps SplitFlags.trim 0 v with
              | .error _ => true
              | .ok ws => ws.all (fun w => (lookupLetter w).isNone))
          else true)
    | _ => true

/-- junk line of the hosts file: contributes no entry -/
def hostsJunk (line : Bytes) : Bool := (hostsLine line).isNone

/-- junk line of the HOSTALIASES file: can never yield an alias, whatever name is looked up -/
def aliasJunk (line : Bytes) : Bool :=
  let host := line.takeWhile (fun c => !isWs true c)
  match fetchString 64 host with
  | .error _ => true
  | .ok _ =>
    let r := (line.dropWhile (fun c => !isWs true c)).dropWhile (isWs true)
    let fq := r.takeWhile (fun c => !isWs true c)
    match fetchString 256 fq with
    | .error _ => true
    | .ok f => f.isEmpty || !isHostname f

end Cares.Text
