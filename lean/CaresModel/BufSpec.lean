import CaresModel.Buf
/-
Trivial references for the byte buffer (specification side of C19, not a model of any C code):

* `QRef`   — a byte queue: everything ever appended (`stream`), an absolute read position and an absolute tag.
             Nothing is ever moved or dropped; `reclaim` is a no-op here.
* `specSplit` — ares_buf_split as a function on the list of unread bytes (no cursor, no tag).
-/
namespace Cares
open Cares.Dsa

structure QRef where
  stream : List Nat
  pos : Nat
  tag : Option Nat
  /-- the buffer has allocated memory (a never-allocated ares_buf_t answers tag_fetch with an error) -/
  allocated : Bool
  deriving Repr, DecidableEq

def QRef.empty : QRef := { stream := [], pos := 0, tag := none, allocated := false }

inductive BufOp where
  | app (d : List Nat) | consume (n : Nat) | fetch (n : Nat) | tag | rollback | clear | reclaim | len
  | tagfetch (cap : Nat) | peek

inductive BufOut where
  | st (s : St) | bytes (o : Option (List Nat)) | num (n : Nat)
  deriving DecidableEq

/-- the model side of one operation (allocations succeed) -/
def bufStep (b : Buf) : BufOp → BufOut × Buf
  | .app d => (.st (b.append d Oracle.ok).1, (b.append d Oracle.ok).2.1)
  | .consume n => (.st (b.consume n).1, (b.consume n).2)
  | .fetch n => (.bytes (b.fetchBytes n).1, (b.fetchBytes n).2)
  | .tag => (.st .ok, b.doTag)
  | .rollback => (.st b.tagRollback.1, b.tagRollback.2)
  | .clear => (.st b.tagClear.1, b.tagClear.2)
  | .reclaim => (.st .ok, b.reclaim)
  | .len => (.num b.len, b)
  | .tagfetch cap => (.bytes (b.tagFetchBytes cap), b)
  | .peek => (.bytes b.fetch, b)

/-- the reference side of one operation -/
def qrefStep (q : QRef) : BufOp → BufOut × QRef
  | .app d => (.st .ok, if d.isEmpty then q else { q with stream := q.stream ++ d, allocated := true })
  | .consume n =>
    if q.stream.length - q.pos < n then (.st .formerr, q) else (.st .ok, { q with pos := q.pos + n })
  | .fetch n =>
    if n = 0 ∨ q.stream.length - q.pos < n then (.bytes none, q)
    else (.bytes (some ((q.stream.drop q.pos).take n)), { q with pos := q.pos + n })
  | .tag => (.st .ok, { q with tag := some q.pos })
  | .rollback =>
    match q.tag with
    | none => (.st .formerr, q)
    | some t => (.st .ok, { q with pos := t, tag := none })
  | .clear =>
    match q.tag with
    | none => (.st .formerr, q)
    | some _ => (.st .ok, { q with tag := none })
  | .reclaim => (.st .ok, q)
  | .len => (.num (q.stream.length - q.pos), q)
  | .tagfetch cap =>
    (.bytes (match q.tag with
      | none => none
      | some t => if !q.allocated then none else if cap < q.pos - t then none
                  else some ((q.stream.drop t).take (q.pos - t))), q)
  | .peek => (.bytes (if q.stream.length - q.pos = 0 then none else some (q.stream.drop q.pos)), q)

def bufRun : Buf → List BufOp → List BufOut × Buf
  | b, [] => ([], b)
  | b, op :: r => ((bufStep b op).1 :: (bufRun (bufStep b op).2 r).1, (bufRun (bufStep b op).2 r).2)

def qrefRun : QRef → List BufOp → List BufOut × QRef
  | q, [] => ([], q)
  | q, op :: r => ((qrefStep q op).1 :: (qrefRun (qrefStep q op).2 r).1, (qrefRun (qrefStep q op).2 r).2)

/-- how a dynamic buffer represents a queue: it holds the stream from some `base` on, and `base` is neither
    beyond the read position nor beyond the tag -/
structure BufRel (b : Buf) (q : QRef) (base : Nat) : Prop where
  inv : b.Inv
  dyn : b.isConst = false
  baseLe : base ≤ q.stream.length
  basePos : base ≤ q.pos
  tagOk : ∀ t, q.tag = some t → base ≤ t ∧ t ≤ q.pos
  live : b.live = q.stream.drop base
  off : b.off + base = q.pos
  tag : b.tag = q.tag.map (· - base)
  alloc : q.allocated = !b.mem.isEmpty

/-! ### ares_buf_split on lists -/

/-- the specification: cut the input at the delimiter bytes; a section other than the first starts at its
    delimiter (kept or thrown away); once `maxSections − 1` sections have been kept the rest of the input is the
    last section; sections are trimmed, blank ones dropped unless allowed, duplicates dropped if asked for -/
def specSplitLoop (delims : List Nat) (fl : Buf.SplitFlags) (maxSections : Nat) :
    Nat → List Nat → Bool → List (List Nat) → List (List Nat)
  | 0, _, _, acc => acc
  | fuel + 1, inp, first, acc =>
    if inp.length = 0 then acc
    else
      let pre := if first then [] else if fl.keepDelims then inp.take 1 else []
      let scan := if first then inp else inp.drop 1
      let body := if maxSections ≠ 0 ∧ acc.length ≥ maxSections - 1 then scan
                  else scan.takeWhile (fun c => !delims.contains c)
      let rest := scan.drop body.length
      specSplitLoop delims fl maxSections fuel rest false (Buf.keepSection fl acc (pre ++ body))

def specSplit (input delims : List Nat) (fl : Buf.SplitFlags) (maxSections : Nat) : List (List Nat) :=
  specSplitLoop delims fl maxSections (input.length + 1) input true []

end Cares
