import CaresModel.Proto.Cookie
import CaresModel.Proto.Qcache
import CaresModel.Proto.Timeout
import Driver.Loop
/-! Model driver for the `h_proto` line protocol (pure protocol cores: cookies, query cache, metrics/timeouts).
    Same op lines as `harness/h_proto.c`, one output line per input line. -/
open Driver
open Cares.Proto

namespace ProtoDriver

def hexVal (c : Char) : Option Nat :=
  if '0' ≤ c ∧ c ≤ '9' then some (c.toNat - '0'.toNat)
  else if 'a' ≤ c ∧ c ≤ 'f' then some (c.toNat - 'a'.toNat + 10)
  else if 'A' ≤ c ∧ c ≤ 'F' then some (c.toNat - 'A'.toNat + 10)
  else none

def unhexGo : List Char → List Nat → Option (List Nat)
  | [], acc => some acc.reverse
  | [_], _ => none
  | a :: b :: r, acc =>
    match hexVal a, hexVal b with
    | some x, some y => unhexGo r ((x * 16 + y) :: acc)
    | _, _ => none

/-- `-` is the empty string -/
def unhex (s : String) : Option (List Nat) := if s = "-" then some [] else unhexGo s.toList []

def unhexBytes (s : String) : Option (List UInt8) := (unhex s).map (·.map UInt8.ofNat)

def hexDigit (n : Nat) : Char := if n < 10 then Char.ofNat (48 + n) else Char.ofNat (87 + n)

def hexOf (b : List UInt8) : String :=
  if b.isEmpty then "-" else String.ofList (b.flatMap fun x => [hexDigit (x.toNat / 16), hexDigit (x.toNat % 16)])

def kv (toks : List String) (key : String) (dflt : Nat) : Nat :=
  match toks.find? (fun t => t.startsWith (key ++ "=")) with
  | some t => ((t.drop (key.length + 1)).toString.toNat?).getD dflt
  | none => dflt

structure QInfo where
  req : Cookie.ReqOpt
  q : Cookie.QState

structure PState where
  nowSec : Int := 1000
  nowUsec : Nat := 0
  nsrv : Nat := 2
  tries : Nat := 3
  timeout : Nat := 2000
  maxtimeout : Nat := 0
  cookies : List (Nat × Cookie.CookieSt) := []
  queries : List (Nat × QInfo) := []
  cache : Qcache.Cache := Qcache.Cache.empty 3600
  metrics : List (Nat × Timeout.Metrics) := []

def PState.now (s : PState) : Cookie.TimeVal := ⟨s.nowSec, s.nowUsec⟩

def PState.adv (s : PState) (usec : Nat) : PState :=
  let u := s.nowUsec + usec
  { s with nowSec := s.nowSec + (u / 1000000 : Nat), nowUsec := u % 1000000 }

def cookieOf (s : PState) (srv : Nat) : Cookie.CookieSt := (lookup srv s.cookies).getD Cookie.CookieSt.cleared
def metricsOf (s : PState) (srv : Nat) : Timeout.Metrics := (lookup srv s.metrics).getD Timeout.Metrics.init

/-- cookie spec of the line protocol: `noopt` / `none` / `-` / hex -/
def parseSpec (t : String) : Option Cookie.ReqOpt :=
  if t = "noopt" then some none
  else if t = "none" then some (some none)
  else (unhexBytes t).map (fun b => some (some b))

def showReq : Cookie.ReqOpt → String
  | none => "noopt"
  | some none => "none"
  | some (some c) => hexOf c

def parseAddr (t : String) : Option Cookie.Addr :=
  if t = "-" then some ⟨Cares.Generated.Proto.AF_UNSPEC, []⟩ else
  match unhexBytes t with
  | some b =>
    if b.length = 4 then some ⟨Cares.Generated.Proto.AF_INET, b⟩
    else if b.length = 16 then some ⟨Cares.Generated.Proto.AF_INET6, b⟩ else none
  | none => none

/-! ### cookies -/

def doQnew (s : PState) : List String → PState × String
  | [q, spec, tcp, ctc] =>
    match q.toNat?, parseSpec spec, tcp.toNat?, ctc.toNat? with
    | some q, some r, some tcp, some ctc =>
      if q < 64 then
        ({ s with queries := update q ⟨r, ⟨ctc, tcp ≠ 0⟩⟩ s.queries }, "ok")
      else (s, "bad-op")
    | _, _, _, _ => (s, "bad-op")
  | _ => (s, "bad-op")

def doApply (s : PState) : List String → PState × String
  | [q, srv, ip, tcp, rnd] =>
    if (q.toNat?.bind fun q => lookup q s.queries).isNone then (s, "bad-handle") else
    match q.toNat?, srv.toNat?, parseAddr ip, tcp.toNat?, unhexBytes rnd with
    | some q, some srv, some ip, some tcp, some rnd =>
      match lookup q s.queries with
      | none => (s, "bad-handle")
      | some qi =>
        if srv ≥ s.nsrv then (s, "bad-op") else
        -- the harness' RNG hook pads a short script deterministically; the generator always supplies 8 bytes
        let o := Cookie.apply (cookieOf s srv) ⟨ip, tcp ≠ 0⟩ s.now rnd qi.req
        ({ s with cookies := update srv o.ck s.cookies, queries := update q { qi with req := o.req } s.queries },
         s!"cookie={showReq o.req} draws={o.draws}")
    | _, _, _, _, _ => (s, "bad-op")
  | _ => (s, "bad-op")

def doValidate (s : PState) : List String → PState × String
  | [q, srv, spec, rc] =>
    if (q.toNat?.bind fun q => lookup q s.queries).isNone then (s, "bad-handle") else
    match q.toNat?, srv.toNat?, parseSpec spec, rc.toNat? with
    | some q, some srv, some resp, some rc =>
      match lookup q s.queries with
      | none => (s, "bad-handle")
      | some qi =>
        if srv ≥ s.nsrv then (s, "bad-op") else
        if !(Cares.Generated.Proto.RCODE_VALID.contains rc) then (s, "badresp") else
        let reqCookie : Option Cookie.Bytes := match qi.req with | some c => c | none => none
        let respCookie : Option Cookie.Bytes := match resp with | some c => c | none => none
        let o := Cookie.validate (cookieOf s srv) qi.q reqCookie respCookie rc s.now
        ({ s with cookies := update srv o.ck s.cookies, queries := update q { qi with q := o.q } s.queries },
         (if o.verdict = .accept then "accept" else "drop") ++
         s!" rq={if o.requeue then 1 else 0} ctc={o.q.cookieTry} tcp={if o.q.usingTcp then 1 else 0}" ++
         (if o.oob then " OOB" else ""))
    | _, _, _, _ => (s, "bad-op")
  | _ => (s, "bad-op")

/-! ### query cache -/

def parseQuestion (t : String) : Option Qcache.Question :=
  match t.splitOn "/" with
  | [n, ty, cl] =>
    match unhex n, ty.toNat?, cl.toNat? with
    | some n, some ty, some cl => some ⟨n, ty, cl⟩
    | _, _, _ => none
  | _ => none

/-- request = `<opcode> <rd> <cd> <q1,q2,…>`; `none` = malformed line, `some none` = the record API refuses it -/
def parseReq : List String → Option (Option Qcache.Req)
  | [op, rd, cd, qs] =>
    match op.toNat?, rd.toNat?, cd.toNat?, (qs.splitOn ",").mapM parseQuestion with
    | some op, some rd, some cd, some qs =>
      if !(Cares.Generated.Proto.OPCODE_VALID.contains op) then some none
      else if qs.any (fun q => q.name.contains 0 || q.qtype ≥ Cares.Generated.Proto.REC_TYPE_RAW_RR ||
                               !(Cares.Generated.Proto.QCLASS_VALID.contains q.qclass)) then some none
      else some (some ⟨op, rd ≠ 0, cd ≠ 0, qs⟩)
    | _, _, _, _ => none
  | _ => none

def parseRR (t : String) : Option Qcache.RR :=
  match (t.splitOn "/").mapM String.toNat? with
  | some [s, ty, ttl, mn] => if 1 ≤ s ∧ s ≤ 3 then some ⟨s, ty, ttl, mn⟩ else none
  | _ => none

def parseResp : List String → Option Qcache.Resp
  | id :: rc :: tc :: rrs =>
    match id.toNat?, rc.toNat?, tc.toNat?, rrs.mapM parseRR with
    | some id, some rc, some tc, some rrs => some ⟨id, rc, tc ≠ 0, rrs⟩
    | _, _, _, _ => none
  | _ => none

def showTtls (l : List Nat) : String := showList l

def ttlRRs (r : Qcache.Resp) : List Qcache.RR :=
  -- printed in section order, OPT skipped
  ([1, 2, 3].flatMap fun s => r.rrs.filter (fun rr => rr.sect = s)).filter
    (fun rr => rr.rtype ≠ Cares.Generated.Proto.REC_TYPE_OPT)

def doQins (s : PState) : List String → PState × String
  | now :: op :: rd :: cd :: qs :: rest =>
    match now.toInt?, parseReq [op, rd, cd, qs] with
    | some now, some none => let _ := now; (s, "badreq")
    | some now, some (some req) =>
      match parseResp rest with
      | none => (s, "badresp")
      | some resp =>
        if !(Cares.Generated.Proto.RCODE_VALID.contains resp.rcode) then (s, "badresp") else
        let (c, r) := Qcache.insert s.cache now req resp
        ({ s with cache := c }, if r = .ok then "ok" else "no")
    | _, _ => (s, "bad-op")
  | _ => (s, "bad-op")

def doQget (s : PState) : List String → PState × String
  | [now, op, rd, cd, qs] =>
    match now.toInt?, parseReq [op, rd, cd, qs] with
    | some _, some none => (s, "badreq")
    | some now, some (some req) =>
      let (c, r) := Qcache.fetch s.cache now req
      let s' := { s with cache := c }
      match r with
      | .miss => (s', "miss")
      | .dangling => (s', "DANGLING")
      | .hit e dec =>
        let rrs := ttlRRs e.resp
        (s', s!"hit id={e.resp.id} rc={e.resp.rcode} tc={if e.resp.tc then 1 else 0} " ++
             s!"api={showTtls (rrs.map fun rr => Qcache.apiTtl dec rr.ttl)} " ++
             s!"wire={showTtls (rrs.map fun rr => Qcache.wireTtl dec rr.ttl)}")
    | _, _ => (s, "bad-op")
  | _ => (s, "bad-op")

/-! ### metrics / timeouts -/

def doMrec (s : PState) : List String → PState × String
  | [srv, ss, su, ok, rc] =>
    match srv.toNat?, ss.toInt?, su.toNat?, ok.toNat?, rc.toNat? with
    | some srv, some ss, some su, some ok, some rc =>
      if srv ≥ s.nsrv then (s, "bad-op") else
      if !(Cares.Generated.Proto.RCODE_VALID.contains rc) then (s, "badresp") else
      let m := (metricsOf s srv).record (ok ≠ 0) rc ss su s.nowSec s.nowUsec
      ({ s with metrics := update srv m s.metrics }, "ok")
    | _, _, _, _, _ => (s, "bad-op")
  | _ => (s, "bad-op")

def doMtmo (s : PState) : List String → PState × String
  | [srv] =>
    match srv.toNat? with
    | some srv =>
      if srv ≥ s.nsrv then (s, "bad-op") else
      (s, toString (Timeout.serverTimeout (metricsOf s srv) s.timeout s.maxtimeout s.nowSec))
    | none => (s, "bad-op")
  | _ => (s, "bad-op")

/-- one observed attempt `a=<srv>:<ms>:<r|->:<base>` -/
def parseObs (t : String) : Option (Nat × Nat × Option Nat) :=
  if !t.startsWith "a=" then none else
  match ((t.drop 2).toString.splitOn ":") with
  | srv :: ms :: r :: _ =>
    match srv.toNat?, ms.toNat? with
    | some srv, some ms => some (srv, ms, if r = "-" then none else r.toNat?)
    | _, _ => none
  | _ => none

/-- `tq <max> <observed attempts…> end=…`: the server chosen and the 16-bit draw of every attempt are taken from the
    implementation's trace (semantically free choices), the timeout of every attempt and the number of attempts are
    recomputed -/
def tqGo (s : PState) (budget : Nat) : Nat → Nat → List (Nat × Nat × Option Nat) → List String → PState × List String
  | 0, _, _, acc => (s, acc.reverse)
  | _, _, [], acc => (s, acc.reverse)
  | fuel + 1, k, (srv, _, r) :: rest, acc =>
    if k ≥ budget then (s, acc.reverse) else
    let base := Timeout.serverTimeout (metricsOf s srv) s.timeout s.maxtimeout s.nowSec
    let o := Timeout.calcQueryTimeout base s.maxtimeout k s.nsrv (r.getD 0)
    let rs := match r with | some v => toString v | none => "-"
    -- the theorems abstract the jitter by an interval; check on every observed attempt that the exact value lies in it
    let pj := (Timeout.preJitter (Cares.Generated.Proto.CALC_SHIFT_GUARDED == 1) base s.maxtimeout (k / s.nsrv)).1
    let jitBad := k / s.nsrv > 0 && !(decide (Timeout.jitterOk pj (Timeout.jitterExact pj (r.getD 0))))
    let flag := (if o.ub then "!UB" else "") ++ (if o.ovf then "!OVF" else "") ++ (if jitBad then "!JIT" else "")
    tqGo (s.adv (o.timeplus * 1000)) budget fuel (k + 1) rest (s!"a={srv}:{o.timeplus}:{rs}:{base}{flag}" :: acc)

def doTq (s : PState) : List String → PState × String
  | mx :: obs =>
    match mx.toNat? with
    | none => (s, "bad-op")
    | some mx =>
      let attempts := obs.filterMap parseObs
      let budget := s.nsrv * s.tries
      let (s', outs) := tqGo s budget mx 0 attempts []
      let done := outs.length ≥ budget
      (s', " ".intercalate (outs ++ [if done then "end=12" else "end=pending"]))
  | _ => (s, "bad-op")

def step (s : PState) (toks : List String) : PState × String :=
  match toks with
  | "chan" :: rest =>
    let nsrv := kv rest "nsrv" 2
    if nsrv < 1 ∨ nsrv > 8 then ({ }, "err") else
    ({ nowSec := s.nowSec, nowUsec := s.nowUsec, nsrv := nsrv, tries := kv rest "tries" 3,
       timeout := kv rest "timeout" 2000, maxtimeout := kv rest "maxtimeout" 0,
       cache := Qcache.Cache.empty (kv rest "cache" 3600) }, "ok")
  | ["time", a, b] =>
    match a.toInt?, b.toNat? with
    | some a, some b => ({ s with nowSec := a, nowUsec := b }, "ok")
    | _, _ => (s, "bad-op")
  | ["adv", a] =>
    match a.toNat? with
    | some a => (s.adv a, "ok")
    | none => (s, "bad-op")
  | "qnew" :: rest => doQnew s rest
  | "apply" :: rest => doApply s rest
  | "validate" :: rest => doValidate s rest
  | "qins" :: rest => doQins s rest
  | "qget" :: rest => doQget s rest
  | ["qflush"] => ({ s with cache := Qcache.flush s.cache }, "ok")
  | ["qsetservers", _] => ({ s with cache := Qcache.flush s.cache }, "ok")
  | "mrec" :: rest => doMrec s rest
  | "mtmo" :: rest => doMtmo s rest
  | "tq" :: rest => doTq s rest
  | _ => (s, "bad-op")

end ProtoDriver

def main : IO Unit := loop ({} : ProtoDriver.PState) ProtoDriver.step
