import CaresModel.Dsa.Arr
import Driver.Loop
/-! Model driver for the `h_dsa` line protocol (DESIGN.md appendix A.1). -/
open Cares.Dsa Driver

structure DsaState where
  arrs : List (Nat × Arr) := []

def stStr : St → String
  | .ok => "ok" | .formerr => "err" | .nomem => "nomem"

def optStr : Option Nat → String
  | some v => toString v | none => "none"

def arrCmd (s : DsaState) (cmd : String) (h : Nat) (args : List Nat) : DsaState × String :=
  if cmd = "new" then ({ s with arrs := update h Arr.empty s.arrs }, "ok") else
  match lookup h s.arrs with
  | none => (s, "bad-handle")
  | some a =>
    let upd (r : St × Arr) : DsaState × String := ({ s with arrs := update h r.2 s.arrs }, stStr r.1)
    match cmd, args with
    | "ins", [idx, v] => upd (a.insertAt idx v true)
    | "insfirst", [v] => upd (a.insertFirst v true)
    | "inslast", [v] => upd (a.insertLast v true)
    | "rm", [idx] => upd (a.claimAt idx)
    | "rmfirst", [] => upd a.removeFirst
    | "rmlast", [] => upd a.removeLast
    | "claim", [idx] =>
      match a.at? idx with
      | none => (s, "err")
      | some v => let r := a.claimAt idx; ({ s with arrs := update h r.2 s.arrs }, toString v)
    | "at", [idx] => (s, optStr (a.at? idx))
    | "first", [] => (s, optStr a.first?)
    | "last", [] => (s, optStr a.last?)
    | "len", [] => (s, toString a.cnt)
    | "dump", [] => (s, showList a.abs)
    | "finish", [] =>
      match a.finish with
      | none => (s, "err")
      | some l => ({ s with arrs := remove h s.arrs }, showList l)
    | _, _ => (s, "bad-op")

def step (s : DsaState) (toks : List String) : DsaState × String :=
  match toks with
  | "arr" :: cmd :: h :: rest =>
    match h.toNat?, rest.mapM String.toNat? with
    | some h, some args => arrCmd s cmd h args
    | _, _ => (s, "bad-op")
  | _ => (s, "bad-op")

def main : IO Unit := loop ({} : DsaState) step
