import CaresModel.Dsa.Arr
import CaresModel.Dsa.HTable
import CaresModel.Buf
import CaresModel.Dsa.SList
import CaresModel.Dsa.LList
import Driver.Loop
/-! Model driver for the `h_dsa` line protocol (DESIGN.md appendix A.1). -/
open Cares Cares.Dsa Driver

abbrev Bytes := List Nat

/-- the typed hash tables and what their wrappers add to ares_htable_t -/
structure HKind where
  name : String
  strKey : Bool      -- keys are text (hex in the protocol); numbers otherwise
  strVal : Bool
  caseIns : Bool     -- ares_strcaseeq / FNV1a_casecmp
  pre : Nat          -- allocations made by the typed insert before ares_htable_insert
  wrapAlloc : Nat    -- allocations made by the typed create before ares_htable_create
  keysAllocs : Option Nat  -- allocations of the `keys` call besides one per key copy (none = no such API)
  keyCopies : Bool   -- `keys` duplicates every key (dict)
  rejectEmptyKey : Bool

def hkinds : List HKind := [
  { name := "szvp", strKey := false, strVal := false, caseIns := false, pre := 1, wrapAlloc := 1, keysAllocs := none, keyCopies := false, rejectEmptyKey := false },
  { name := "strvp", strKey := true, strVal := false, caseIns := true, pre := 2, wrapAlloc := 1, keysAllocs := none, keyCopies := false, rejectEmptyKey := false },
  { name := "asvp", strKey := false, strVal := false, caseIns := false, pre := 1, wrapAlloc := 1, keysAllocs := some 2, keyCopies := false, rejectEmptyKey := false },
  { name := "vpvp", strKey := false, strVal := false, caseIns := false, pre := 1, wrapAlloc := 1, keysAllocs := none, keyCopies := false, rejectEmptyKey := false },
  { name := "vpstr", strKey := false, strVal := true, caseIns := false, pre := 2, wrapAlloc := 1, keysAllocs := none, keyCopies := false, rejectEmptyKey := false },
  { name := "dict", strKey := true, strVal := true, caseIns := true, pre := 3, wrapAlloc := 1, keysAllocs := some 2, keyCopies := true, rejectEmptyKey := true },
  { name := "raw", strKey := false, strVal := false, caseIns := false, pre := 1, wrapAlloc := 0, keysAllocs := some 1, keyCopies := false, rejectEmptyKey := false }]

/-- the callbacks each kind registers.  The seed of the typed tables is not observable (and no output
    depends on it: C19.ht_run_refines); `raw` uses the identity hash of the harness. -/
def hkOps (k : HKind) : HOps Bytes :=
  if k.name = "raw" then { hash := fun key => u32 (key.headD 0), eq := fun a b => a == b }
  else if k.caseIns then { hash := fun key => fnv1aCase key 0, eq := strCaseEq }
  else { hash := fun key => fnv1a key 0, eq := fun a b => a == b,
         -- the key of the pointer-keyed tables is the pointer itself: 0 is NULL
         isNull := fun key => (k.name = "vpvp" ∨ k.name = "vpstr") ∧ key == [0] }

structure DsaState where
  arrs : List (Nat × Arr) := []
  hts : List (Nat × (HKind × HTable Bytes Bytes)) := []
  bufs : List (Nat × Buf) := []
  sls : List (Nat × SList) := []
  slnodes : List (Nat × Nat) := []      -- live skip-list node → its list
  slPat : List Nat := []                -- coin pattern (`sl rand`)
  slCtr : Nat := 0
  llh : LHeap := LHeap.empty
  orc : Oracle := Oracle.ok
  cntBase : Nat := 0

def stStr : St → String
  | .ok => "ok" | .formerr => "err" | .nomem => "nomem"

def optStr : Option Nat → String
  | some v => toString v | none => "none"

/-! hex text -/
def hexDigit (c : Char) : Option Nat :=
  if '0' ≤ c ∧ c ≤ '9' then some (c.toNat - '0'.toNat)
  else if 'a' ≤ c ∧ c ≤ 'f' then some (c.toNat - 'a'.toNat + 10)
  else if 'A' ≤ c ∧ c ≤ 'F' then some (c.toNat - 'A'.toNat + 10)
  else none

def unhexAux : List Char → Option Bytes
  | [] => some []
  | [_] => some []            -- h_unhex ignores a dangling nibble
  | a :: b :: r => do
    let x ← hexDigit a
    let y ← hexDigit b
    let rest ← unhexAux r
    pure ((x * 16 + y) :: rest)

def unhex (s : String) : Option Bytes := if s = "-" then some [] else unhexAux s.toList

def hexNib (n : Nat) : Char := if n < 10 then Char.ofNat (48 + n) else Char.ofNat (87 + n)

def hexOf (b : Bytes) : String :=
  if b.isEmpty then "-" else String.ofList (b.flatMap (fun x => [hexNib (x / 16), hexNib (x % 16)]))

/-- strcmp order on byte strings -/
def ltBytes : Bytes → Bytes → Bool
  | [], [] => false
  | [], _ :: _ => true
  | _ :: _, [] => false
  | a :: as, b :: bs => if a < b then true else if b < a then false else ltBytes as bs

def insertSorted (lt : α → α → Bool) (x : α) : List α → List α
  | [] => [x]
  | y :: r => if lt x y then x :: y :: r else y :: insertSorted lt x r

def sortBy (lt : α → α → Bool) (l : List α) : List α := l.foldl (fun acc x => insertSorted lt x acc) []

def arrCmd (s : DsaState) (cmd : String) (h : Nat) (args : List Nat) : DsaState × String :=
  if cmd = "new" then
    -- ares_array_create: one allocation
    let (ok, o) := s.orc.next
    if ok then ({ s with arrs := update h Arr.empty s.arrs, orc := o }, "ok")
    else ({ s with arrs := remove h s.arrs, orc := o }, "nomem")
  else
  match lookup h s.arrs with
  | none => (s, "bad-handle")
  | some a =>
    -- ares_array_set_size calls realloc exactly when the rounded size exceeds the allocation
    let ins (idx v : Nat) : DsaState × String :=
      let grows := idx ≤ a.cnt ∧ (a.setSize (a.cnt + 1) true).2.mem.length ≠ a.mem.length
      let (ok, o) := if grows then s.orc.next else (true, s.orc)
      let r := a.insertAt idx v ok
      ({ s with arrs := update h r.2 s.arrs, orc := o }, stStr r.1)
    let upd (r : St × Arr) : DsaState × String := ({ s with arrs := update h r.2 s.arrs }, stStr r.1)
    match cmd, args with
    | "ins", [idx, v] => ins idx v
    | "insfirst", [v] => ins 0 v
    | "inslast", [v] => ins a.cnt v
    | "setsize", [n] =>
      let grows := ¬ (n = 0 ∨ n < a.cnt) ∧ (a.setSize n true).2.mem.length ≠ a.mem.length
      let (ok, o) := if grows then s.orc.next else (true, s.orc)
      let r := a.setSize n ok
      ({ s with arrs := update h r.2 s.arrs, orc := o }, stStr r.1)
    | "rm", [idx] => upd (a.claimAt idx)
    | "rmfirst", [] => upd a.removeFirst
    | "rmlast", [] => upd a.removeLast
    | "claim", [idx] =>
      match a.at? idx with
      | none => (s, "err")
      | some v => let r := a.claimAt idx; ({ s with arrs := update h r.2 s.arrs }, toString v)
    | "at", [idx] => (s, optStr (a.at? idx))
    | "first", [] => (s, optStr a.first?)
    | "last", [] => (s, optStr a.last?)
    | "len", [] => (s, toString a.cnt)
    | "dump", [] => (s, showList a.abs)
    | "finish", [] =>
      match a.finish with
      | none => (s, "err")
      | some l => ({ s with arrs := remove h s.arrs }, showList l)
    | _, _ => (s, "bad-op")

def parseKey (k : HKind) (tok : String) : Option Bytes :=
  if k.strKey then unhex tok else tok.toNat?.map (fun n => [n])

def parseVal (k : HKind) (tok : String) : Option Bytes :=
  if k.strVal then unhex tok else tok.toNat?.map (fun n => [n])

def showKey (k : HKind) (b : Bytes) : String := if k.strKey then hexOf b else toString (b.headD 0)
def showVal (k : HKind) (b : Bytes) : String := if k.strVal then hexOf b else toString (b.headD 0)

def htCmd (s : DsaState) (cmd : String) (h : Nat) (args : List String) : DsaState × String :=
  if cmd = "new" then
    match args with
    | [kname] =>
      match hkinds.find? (·.name = kname) with
      | none => (s, "bad-op")
      | some k =>
        match s.orc.nextN k.wrapAlloc with
        | (false, o) => ({ s with hts := remove h s.hts, orc := o }, "nomem")
        | (true, o) =>
          match HTable.create (K := Bytes) (V := Bytes) o with
          | (none, o1) => ({ s with hts := remove h s.hts, orc := o1 }, "nomem")
          | (some t, o1) => ({ s with hts := update h (k, t) s.hts, orc := o1 }, "ok")
    | _ => (s, "bad-op")
  else
  match lookup h s.hts with
  | none => (s, "bad-handle")
  | some (k, t) =>
    let ops := hkOps k
    match cmd, args with
    | "put", [kt, vt] =>
      match parseKey k kt, parseVal k vt with
      | some key, some val =>
        if k.rejectEmptyKey ∧ key.isEmpty then (s, "err")
        else
          let (ok, t', o) := HTable.wrapInsert ops k.pre t key val s.orc
          ({ s with hts := update h (k, t') s.hts, orc := o }, if ok then "ok" else "err")
      | _, _ => (s, "bad-op")
    | "get", [kt] =>
      match parseKey k kt with
      | some key =>
        match HTable.get ops t key with
        | some e => (s, showVal k e.2)
        | none => (s, "none")
      | none => (s, "bad-op")
    | "claim", [kt] =>
      if k.name ≠ "strvp" then (s, "bad-op") else
      match parseKey k kt with
      | some key =>
        match HTable.get ops t key with
        | some e => ({ s with hts := update h (k, (HTable.remove ops t key).2) s.hts }, showVal k e.2)
        | none => (s, "none")
      | none => (s, "bad-op")
    | "del", [kt] =>
      match parseKey k kt with
      | some key =>
        let (ok, t') := HTable.remove ops t key
        ({ s with hts := update h (k, t') s.hts }, if ok then "ok" else "none")
      | none => (s, "bad-op")
    | "count", [] => (s, toString t.numKeys)
    | "keys", [] =>
      match k.keysAllocs with
      | none => (s, "unsupported")
      | some n =>
        if t.numKeys = 0 then (s, "[]") else
        match s.orc.nextN (n + (if k.keyCopies then t.numKeys else 0)) with
        | (false, o) => ({ s with orc := o }, "nomem")
        | (true, o) =>
          let ks := t.entries.map (·.1)
          let sorted := if k.strKey then sortBy ltBytes ks else sortBy (fun a b => a.headD 0 < b.headD 0) ks
          ({ s with orc := o }, "[" ++ " ".intercalate (sorted.map (showKey k)) ++ "]")
    | _, _ => (s, "bad-op")

def showSections (l : List Bytes) : String := "[" ++ " ".intercalate (l.map hexOf) ++ "]"

def bufCmd (s : DsaState) (cmd : String) (h : Nat) (args : List String) : DsaState × String :=
  let setB (b : Buf) (out : String) : DsaState × String := ({ s with bufs := update h b s.bufs }, out)
  if cmd = "new" then
    let (ok, o) := s.orc.next
    if ok then ({ s with bufs := update h Buf.empty s.bufs, orc := o }, "ok")
    else ({ s with bufs := remove h s.bufs, orc := o }, "nomem")
  else if cmd = "const" then
    match args.head?.bind unhex with
    | none => (s, "bad-op")
    | some data =>
      match Buf.ofConst data with
      | none => ({ s with bufs := remove h s.bufs }, "none")
      | some b =>
        let (ok, o) := s.orc.next
        if ok then ({ s with bufs := update h b s.bufs, orc := o }, "ok")
        else ({ s with bufs := remove h s.bufs, orc := o }, "nomem")
  else
  match lookup h s.bufs with
  | none => (s, "bad-handle")
  | some b =>
    let nat1 : Option Nat := args.head?.bind String.toNat?
    let stB (r : St × Buf) : DsaState × String := setB r.2 (stStr r.1)
    let stBO (r : St × Buf × Oracle) : DsaState × String :=
      ({ s with bufs := update h r.2.1 s.bufs, orc := r.2.2 }, stStr r.1)
    let cnt (r : Nat × Buf) : DsaState × String := setB r.2 (toString r.1)
    match cmd, args with
    | "app", [hx] =>
      match unhex hx with
      | some d => stBO (b.append d s.orc)
      | none => (s, "bad-op")
    | "be16", [_] => match nat1 with
      | some n => stBO (b.appendBe16 n s.orc)
      | none => (s, "bad-op")
    | "be32", [_] => match nat1 with
      | some n => stBO (b.appendBe32 n s.orc)
      | none => (s, "bad-op")
    | "fetch", [_] => match nat1 with
      | some n =>
        match b.fetchBytes n with
        | (some bytes, b') => setB b' (hexOf bytes)
        | (none, _) => (s, "err")
      | none => (s, "bad-op")
    | "fbe16", [] => match b.fetchBe 2 with
      | (some v, b') => setB b' (toString v)
      | (none, _) => (s, "err")
    | "fbe32", [] => match b.fetchBe 4 with
      | (some v, b') => setB b' (toString v)
      | (none, _) => (s, "err")
    | "consume", [_] => match nat1 with
      | some n => stB (b.consume n)
      | none => (s, "bad-op")
    | "tag", [] => setB b.doTag "ok"
    | "rollback", [] => stB b.tagRollback
    | "tagclear", [] => stB b.tagClear
    | "tagfetch", [] => match b.tagFetchBytes 70000 with
      | some bytes => (s, hexOf bytes)
      | none => (s, "err")
    | "taglen", [] => (s, toString b.tagLength)
    | "reclaim", [] => setB b.reclaim "ok"
    | "setlen", [_] => match nat1 with
      | some n => stB (b.setLength n)
      | none => (s, "bad-op")
    | "len", [] => (s, toString b.len)
    | "peek", [] => (s, hexOf (b.fetch.getD []))
    | "setpos", [_] => match nat1 with
      | some n => stB (b.setPosition n)
      | none => (s, "bad-op")
    | "getpos", [] => (s, toString b.off)
    | "ws", [_] => match nat1 with
      | some n => cnt (b.consumeWhitespace (n != 0))
      | none => (s, "bad-op")
    | "nonws", [] => cnt b.consumeNonWhitespace
    | "line", [_] => match nat1 with
      | some n => cnt (b.consumeLine (n != 0))
      | none => (s, "bad-op")
    | "until", [cs, req] =>
      match unhex cs, req.toNat? with
      | some cs, some req =>
        match b.consumeUntilCharset cs (req != 0) with
        | (some n, b') => setB b' (toString n)
        | (none, b') => setB b' "max"
      | _, _ => (s, "bad-op")
    | "charset", [cs] =>
      match unhex cs with
      | some cs => cnt (b.consumeCharset cs)
      | none => (s, "bad-op")
    | "split", [ds, fl, mx] =>
      match unhex ds, fl.toNat?, mx.toNat? with
      | some ds, some fl, some mx =>
        match b.split ds (Buf.SplitFlags.ofNat fl) mx with
        | some (b', secs) => setB b' (showSections secs)
        | none => (s, "err")
      | _, _, _ => (s, "bad-op")
    | "finishbin", [] =>
      match b.finishBin s.orc with
      | (some bytes, o) => ({ s with bufs := remove h s.bufs, orc := o }, hexOf bytes)
      | (none, o) => ({ s with orc := o }, "err")
    | "finishstr", [] =>
      match b.finishBin s.orc with
      | (some bytes, o) => ({ s with bufs := remove h s.bufs, orc := o }, hexOf bytes)
      | (none, o) => ({ s with orc := o }, "err")
    | _, _ => (s, "bad-op")

/-- the model's own coin flips: node levels are not observable (C19.sl_insert_refines holds for all of them),
    so they need not be the implementation's; the pattern of `sl rand` is used when there is one -/
def slCoins (pat : List Nat) (ctr : Nat) : List Bool :=
  (List.range 40).map (fun i =>
    if pat.isEmpty then ((ctr + i) * 2654435761 + (ctr + i) / 3) % 7 < 3
    else (pat.getD (((ctr + i) / 8) % pat.length) 0 >>> ((ctr + i) % 8)) % 2 = 1)

def slShow (s : SList) (l : List Nat) : String :=
  "[" ++ " ".intercalate (l.map (fun id => toString id ++ ":" ++ toString (s.key id))) ++ "]"

/-- backward iteration as the C code does it: from the tail along prev[0] -/
def slBackward (s : SList) : Nat → Option Nat → List Nat
  | 0, _ => []
  | _, none => []
  | fuel + 1, some x => x :: slBackward s fuel (SList.prevOf x s.level0)

def slCmd (s : DsaState) (cmd : String) (args : List String) : DsaState × String :=
  let nats := args.mapM String.toNat?
  match cmd, args with
  | "rand", [hx] =>
    match unhex hx with
    | some p => ({ s with slPat := p, slCtr := 0 }, "ok")
    | none => (s, "bad-op")
  | _, _ =>
  match nats with
  | none => (s, "bad-op")
  | some nats =>
    if cmd = "rm" ∨ cmd = "setkey" ∨ cmd = "reinsert" ∨ cmd = "next" ∨ cmd = "prev" then
      match nats with
      | n :: rest =>
        match lookup n s.slnodes with
        | none => (s, "bad-handle")
        | some h =>
          match lookup h s.sls with
          | none => (s, "bad-handle")
          | some l =>
            match cmd, rest with
            | "rm", [] => ({ s with sls := update h (l.remove n) s.sls, slnodes := remove n s.slnodes }, toString n)
            | "setkey", [k] => ({ s with sls := update h (l.setKey n k) s.sls }, "ok")
            | "reinsert", [] => ({ s with sls := update h (l.reinsert n) s.sls }, "ok")
            | "next", [] => (s, optStr (SList.after n l.level0).head?)
            | "prev", [] => (s, optStr (SList.prevOf n l.level0))
            | _, _ => (s, "bad-op")
      | [] => (s, "bad-op")
    else
      match nats with
      | h :: rest =>
        if cmd = "new" then
          match lookup h s.sls, rest with
          | none, [] => ({ s with sls := update h SList.empty s.sls }, "ok")
          | _, _ => (s, "bad-op")
        else
        match lookup h s.sls with
        | none => (s, "bad-handle")
        | some l =>
          match cmd, rest with
          | "ins", [n, k] =>
            match lookup n s.slnodes with
            | some _ => (s, "bad-handle")
            | none =>
              let coins := slCoins s.slPat s.slCtr
              ({ s with sls := update h (l.insert n k coins) s.sls, slnodes := update n h s.slnodes,
                        slCtr := s.slCtr + 7 }, "ok")
          | "find", [k] => (s, optStr (l.find k))
          | "first", [] => (s, optStr l.first)
          | "last", [] => (s, optStr l.last)
          | "len", [] => (s, toString l.cnt)
          | "dumpf", [] => (s, slShow l l.level0)
          | "dumpb", [] => (s, slShow l (slBackward l (l.cnt + 1) l.tail))
          | _, _ => (s, "bad-op")
      | [] => (s, "bad-op")

def llFuel : Nat := 2048

def llCmd (s : DsaState) (cmd : String) (args : List Nat) : DsaState × String :=
  let h := s.llh
  let setH (h' : LHeap) (out : String) : DsaState × String := ({ s with llh := h' }, out)
  let nodeCmds := ["insbefore", "insafter", "claim", "destroy", "mvfirst", "mvlast", "next", "prev", "parent"]
  if nodeCmds.contains cmd then
    match args with
    | a :: rest =>
      match h.nodes a with
      | none => (s, "bad-handle")
      | some nd =>
        match cmd, rest with
        | "insbefore", [b] =>
          if b < 1 ∨ (h.nodes b).isSome then (s, "bad-handle") else
          let (ok, o) := s.orc.next
          if ok then ({ s with llh := h.insertBefore pinnedLinkPrev a b, orc := o }, "ok") else ({ s with orc := o }, "nomem")
        | "insafter", [b] =>
          if b < 1 ∨ (h.nodes b).isSome then (s, "bad-handle") else
          let (ok, o) := s.orc.next
          if ok then ({ s with llh := h.insertAfter pinnedLinkPrev a b, orc := o }, "ok") else ({ s with orc := o }, "nomem")
        | "claim", [] => setH (h.claim a) (toString a)
        | "destroy", [] => setH (h.claim a) "ok"
        | "mvfirst", [l] => if (h.lists l).isNone then (s, "bad-handle") else setH (h.mvParentFirst a l) "ok"
        | "mvlast", [l] => if (h.lists l).isNone then (s, "bad-handle") else setH (h.mvParentLast a l) "ok"
        | "next", [] => (s, optStr nd.next)
        | "prev", [] => (s, optStr nd.prev)
        | "parent", [] => (s, match nd.parent with | some l => toString l | none => "-1")
        | _, _ => (s, "bad-op")
    | [] => (s, "bad-op")
  else
    match args with
    | l :: rest =>
      if cmd = "new" then
        match h.lists l, rest with
        | none, [] =>
          let (ok, o) := s.orc.next
          if ok then ({ s with llh := h.create l, orc := o }, "ok") else ({ s with orc := o }, "nomem")
        | _, _ => (s, "bad-op")
      else
      match h.lists l with
      | none => (s, "bad-handle")
      | some hd =>
        match cmd, rest with
        | "insfirst", [b] =>
          if b < 1 ∨ (h.nodes b).isSome then (s, "bad-handle") else
          let (ok, o) := s.orc.next
          if ok then ({ s with llh := h.insertFirst l b, orc := o }, "ok") else ({ s with orc := o }, "nomem")
        | "inslast", [b] =>
          if b < 1 ∨ (h.nodes b).isSome then (s, "bad-handle") else
          let (ok, o) := s.orc.next
          if ok then ({ s with llh := h.insertLast l b, orc := o }, "ok") else ({ s with orc := o }, "nomem")
        | "idx", [i] => (s, optStr (h.nodeIdx l i))
        | "first", [] => (s, optStr hd.head)
        | "last", [] => (s, optStr hd.tail)
        | "len", [] => (s, toString hd.cnt)
        | "dumpf", [] => (s, showList (h.forward l llFuel))
        | "dumpb", [] => (s, showList (h.backward l llFuel))
        | _, _ => (s, "bad-op")
    | [] => (s, "bad-op")

def allocCmd (s : DsaState) (args : List String) : DsaState × String :=
  match args with
  | ["failnth", k] =>
    match k.toNat? with
    | some k => ({ s with orc := s.orc.failNth k }, "ok")
    | none => (s, "bad-op")
  | ["count"] => ({ s with cntBase := s.orc.pos }, toString (s.orc.pos - s.cntBase))
  | _ => (s, "bad-op")

def step (s : DsaState) (toks : List String) : DsaState × String :=
  match toks with
  | "arr" :: cmd :: h :: rest =>
    match h.toNat?, rest.mapM String.toNat? with
    | some h, some args => arrCmd s cmd h args
    | _, _ => (s, "bad-op")
  | "ht" :: cmd :: h :: rest =>
    match h.toNat? with
    | some h => htCmd s cmd h rest
    | none => (s, "bad-op")
  | "buf" :: cmd :: h :: rest =>
    match h.toNat? with
    | some h => bufCmd s cmd h rest
    | none => (s, "bad-op")
  | "sl" :: cmd :: rest => slCmd s cmd rest
  | "ll" :: cmd :: rest =>
    match rest.mapM String.toNat? with
    | some args => llCmd s cmd args
    | none => (s, "bad-op")
  | "alloc" :: rest => allocCmd s rest
  | _ => (s, "bad-op")

def main : IO Unit := loop ({} : DsaState) step
