import CaresModel.Chan.Core
import Driver.Loop
/-! Model driver for the `h_sim` protocol.  Input lines are `<op tokens> || <events printed by the
    implementation>`; the observation part supplies the RNG draws, 0x20 names, cookies, queued lengths and
    jittered deadlines the model cannot know; everything else on the output line is predicted. -/
open Cares.Chan Driver

def hexOfText (t : String) : String :=
  let hexd (n : Nat) : Char := if n < 10 then Char.ofNat (48 + n) else Char.ofNat (87 + n)
  String.ofList (t.toUTF8.toList.flatMap fun b => [hexd (b.toNat / 16), hexd (b.toNat % 16)])

def kv (toks : List String) (key : String) : Option String :=
  toks.findSome? fun t =>
    if t.startsWith (key ++ "=") then some ((t.drop (key.length + 1)).toString) else none

def kvNat (toks : List String) (key : String) (d : Nat) : Nat :=
  match kv toks key with
  | some v => (if v.startsWith "0x" then
      (v.drop 2).toString.toList.foldl (fun acc c =>
        acc * 16 + (if c.isDigit then c.toNat - 48 else if c.toNat ≥ 97 then c.toNat - 87 else c.toNat - 55)) 0
      else v.toNat?.getD d)
  | none => d

def natList (s : String) : List Nat := (s.splitOn ",").filterMap String.toNat?

def reactList (s : String) : List Nat :=
  (s.splitOn ",").filterMap fun t => ((t.drop 1).toString).toNat?

/-- split the event part of the implementation's line -/
def evSplit (s : String) : List String :=
  (s.splitOn " | ").map (·.trimAscii.toString) |>.filter (· ≠ "")

def between (s pre post : String) : Option String :=
  match s.splitOn pre with
  | _ :: r :: _ => some ((r.splitOn post).headD "")
  | _ => none

def parseObs (evs : List String) : Obs × List (Nat × Nat) :=
  let step := fun (acc : Obs × List (Nat × Nat)) (e : String) =>
    let (o, q) := acc
    if e.startsWith "rnd(1," then
      ({ o with rnd1 := o.rnd1 ++ [((between e "rnd(1," ")").getD "0").toNat?.getD 0] }, q)
    else if e.startsWith "rnd(2," then
      ({ o with rnd2 := o.rnd2 ++ [((between e "rnd(2," ")").getD "0").toNat?.getD 0] }, q)
    else if e.startsWith "rnd(8," then
      ({ o with rnd8 := o.rnd8 ++ [(between e "rnd(8," ")").getD ""] }, q)
    else if e.startsWith "tx(" then
      let n := ((between e "tx(" ",").getD "0").toNat?.getD 0
      let nm := (between e ",q=" ",").getD "-"
      let ck := (between e ",ck=" ",").getD "-"
      ({ o with txNames := o.txNames ++ [(n, if nm == "-" then "" else nm)], txCookies := o.txCookies ++ [(n, ck)] }, q)
    else if e.startsWith "queued(" then
      let inner := (between e "queued(" ")").getD ""
      match inner.splitOn "," with
      | [a, b] => (o, q ++ [(a.toNat?.getD 0, b.toNat?.getD 0)])
      | _ => acc
    else if e.startsWith "q=" then
      let inner := (between e "dl=[" "]").getD ""
      let items := (inner.splitOn ",").filterMap fun it =>
        match it.splitOn ":" with
        | [a, b] => match a.toNat?, b.toInt? with
          | some x, some y => some (x, y)
          | _, _ => none
        | _ => none
      ({ o with dls := items }, q)
    else acc
  evs.foldl step ({}, [])

def fuelMax : Nat := 100000

def sortNatPairs (l : List (Nat × Int)) : List (Nat × Int) :=
  l.foldl (fun acc x =>
    let (a, b) := acc.span (fun y => y.1 ≤ x.1)
    a ++ [x] ++ b) []

/-- resolve jittered deadlines from the observation, then render the status tail -/
def finishOp (s : St) : St × String :=
  let s := s.settle
  let tmo := match s.timeoutHint none with
    | some r => s!"to={r}"
    | none => "to=-"
  let active := s.all.length
  let conns := (s.sortedServers.map (·.conns)).flatten.filterMap s.conn?
  let socks := (conns.filter fun c => active > 0 || c.tcp).take 16
  let fds := ",".intercalate (socks.map fun c =>
    s!"{c.fd}:{if active > 0 || c.tcp then "r" else ""}{if c.notW then "w" else ""}")
  let dls := sortNatPairs (s.byTimeout.filterMap fun k => (s.query? k).bind fun q =>
    match q.deadline with
    | .at ms => some (q.qid, Int.ofNat ms - Int.ofNat s.now)
    | _ => none)
  let dl := ",".intercalate (dls.map fun (a, b) => s!"{a}:{b}")
  (s, s!"{tmo} | q={active} fds=[{fds}] dl=[{dl}]")

def render (s : St) (withTail : Bool) : St × String :=
  let (s, tail) := if withTail then finishOp s else (s, "")
  let evs := s.ev.reverse ++ (s.modelFaults.map fun f => "MODEL-FAULT:" ++ f) ++
             (s.obsFaults.map fun f => "MODEL-OBS:" ++ f) ++
             (if s.outOfFuel then ["MODEL-OUT-OF-FUEL"] else [])
  let body := " | ".intercalate (evs ++ (if withTail then [tail] else []))
  ({ s with ev := [], modelFaults := [], obsFaults := [], outOfFuel := false }, if body == "" then "-" else body)

def rcodeOfKind (k : String) : Nat :=
  if k == "nxdomain" then 3 else if k == "servfail" then 2 else if k == "refused" then 5
  else if k == "notimp" then 4 else if k.startsWith "formerr" then 1 else if k == "badcookie" then 23
  else if k == "yxdomain" then 6 else 0

def flipFirstAlpha (hex : String) : String :=
  let rec go : List Char → Bool → List Char
    | a :: b :: r, done =>
      let v := (if a.isDigit then a.toNat - 48 else a.toNat - 87) * 16 + (if b.isDigit then b.toNat - 48 else b.toNat - 87)
      let isAlpha := (65 ≤ v && v ≤ 90) || (97 ≤ v && v ≤ 122)
      if !done && isAlpha then
        let v' := if v ≥ 97 then v - 32 else v + 32
        let hexd (n : Nat) : Char := if n < 10 then Char.ofNat (48 + n) else Char.ofNat (87 + n)
        hexd (v' / 16) :: hexd (v' % 16) :: go r true
      else a :: b :: go r done
    | r, _ => r
  String.ofList (go hex.toList false)

def processFd (s : St) (rfd wfd : Option Nat) : St :=
  let s := match wfd with
    | some fd => (exec fuelMax (.processWrite fd) s).1
    | none => s
  let s := match rfd with
    | some fd => (exec fuelMax (.processRead fd) s).1
    | none => s
  let fds := (s.sortedServers.map (·.conns)).flatten
  let s := (exec fuelMax (.cleanupConns fds) s).1
  (exec fuelMax .processTimeouts s).1

/-- transmission reference: K (absolute) or -K (K-th latest) -/
def txRef (s : St) (toks : List String) (key : String) : Option Tx :=
  match kv toks key with
  | some v =>
    match v.toInt? with
    | some i =>
      let k : Int := if i < 0 then Int.ofNat s.txs.length + i else i
      if k < 0 then none else s.txs[k.toNat]?
    | none => none
  | none => none

def txFd (s : St) (toks : List String) (key : String) : Option Nat := (txRef s toks key).map (·.fd)

def step (s : St) (line : List String) : St × String :=
  -- split at "||"
  let (toks, rest) := line.span (· ≠ "||")
  let evs := evSplit (" ".intercalate (rest.drop 1))
  let (obs, queued) := parseObs evs
  let s := { s with obs := obs }
  match toks with
  | "chan" :: _ =>
    let servers := ((kv toks "servers").getD "10.0.0.1").splitOn ","
    let cfg : Cfg := {
      flags := kvNat toks "flags" 0, tries := kvNat toks "tries" 3, timeout := kvNat toks "timeout" 2000,
      maxtimeout := kvNat toks "maxtimeout" 0, rotate := kvNat toks "rotate" 0 != 0,
      udpMax := kvNat toks "udpmax" 0, cacheTtl := kvNat toks "cache" 0,
      retryChance := kvNat toks "retrychance" 0, retryDelay := kvNat toks "retrydelay" 5000,
      pendingWrite := kvNat toks "pendingwrite" 0 != 0, ndots := kvNat toks "ndots" 1,
      domains := (((kv toks "domains").getD "").splitOn ",").filter (· ≠ "") |>.map hexOfText,
      lookups := (kv toks "lookups").getD "b" }
    let srvs := (List.range servers.length).zip servers |>.map fun (i, a) => ({ id := i, addr := a } : Server)
    ({ cfg := cfg, alive := true, servers := srvs }, "ok")
  | "reaction" :: _ =>
    if !s.alive then (s, if s.destroyed then "destroyed" else "no-channel") else
    let r : Reaction := { kind := (kv toks "kind").getD "cancel",
                          name := hexOfText ((kv toks "name").getD "r.example"),
                          qtype := kvNat toks "type" 1, tok := kvNat toks "tok" (900 + kvNat toks "idx" 0),
                          react := reactList ((kv toks "react").getD "") }
    ({ s with reactions := (s.reactions.filter (·.1 != kvNat toks "idx" 0)) ++ [(kvNat toks "idx" 0, r)] }, "ok")
  | op :: _ =>
    if !s.alive then (s, if s.destroyed then "destroyed" else "no-channel") else
    if op == "req" then
      let tok := kvNat toks "tok" 0
      let spec : ReqSpec := { name := hexOfText ((kv toks "name").getD "www.example.com"),
                              qtype := kvNat toks "type" 1, qclass := kvNat toks "class" 1,
                              edns := kvNat toks "edns" 0 != 0 }
      let s := { s with pendingToks := s.pendingToks ++ [tok] }
      let kind := (kv toks "kind").getD "send"
      let react := reactList ((kv toks "react").getD "")
      let (s, st) := if kind == "send" then exec fuelMax (.sendNolock none false false spec (.user tok) react) s
                     else exec fuelMax (.clientStart kind tok react spec (kvNat toks "fam" 2)) s
      -- ares_getaddrinfo() returns nothing: the harness prints `ok`
      render (s.emit s!"ret({tok},{if kind == "gai" then "ok" else st.name})") true
    else if op == "reply" then
      match txRef s toks "tx" with
      | none => render (s.emit "notx") true
      | some t =>
        let kind := (kv toks "kind").getD "noerror"
        let fd := match kv toks "on" with
          | some v => v.toNat?.getD t.fd
          | none => t.fd
        match s.sock? fd with
        | none => render (s.emit "nofd") true
        | some v =>
          if !v.isOpen then render (s.emit "nofd") true else
          let len := ((queued.find? (·.1 == fd)).map (·.2)).getD 0
          let qn := (kv toks "qname").getD "same"
          let name := if qn == "flipcase" then flipFirstAlpha t.name
                      else if qn == "other" then "78" ++ t.name else t.name
          let zeroAn := kind != "noerror"
          let an := if zeroAn then 0 else kvNat toks "an" 1
          let ck := (kv toks "cookie").getD "echo"
          let hasOpt := (t.edns && kind != "formerr_noopt" && kvNat toks "opt" 1 != 0) || kvNat toks "opt" 0 == 2
          -- COOKIE option of the reply, computed from the request's as the virtual server does
          let reqCk := if t.cookie == "-" then [] else hexToBytes t.cookie
          let flipFirst (b : List UInt8) : List UInt8 := match b with
            | x :: r => (x ^^^ 0xff) :: r
            | [] => []
          let ckBytes : Option (List UInt8) :=
            if !hasOpt || ck == "none" then none
            else if reqCk.length ≥ 8 then
              let c8 := reqCk.take 8
              let c8 := if ck == "badclient" then flipFirst c8 else c8
              if ck == "echo" then some (c8 ++ reqCk.drop 8)
              else if ck.startsWith "new:" then some (c8 ++ hexToBytes (ck.drop 4).toString)
              else if ck == "short" then some (c8.take 4)
              else some c8
            else if ck.startsWith "force:" then some (hexToBytes (ck.drop 6).toString)
            else none
          let rc0 := rcodeOfKind kind
          let r : Reply := {
            id := (t.id + kvNat toks "idadd" 0) % 65536, name := name,
            qtype := t.qtype + kvNat toks "qtadd" 0, qclass := t.qclass + kvNat toks "qcadd" 0,
            rcode := if rc0 > 15 && !hasOpt then 2 else rc0, tc := kind == "tc", hasOpt := hasOpt,
            cookie := ckBytes.map bytesToHex,
            an := an, ttls := natList ((kv toks "ttl").getD "300"),
            mark := kvNat toks "mark" t.n,
            soa := (kv toks "soa").bind fun v => match v.splitOn ":" with
              | [a, b] => some (a.toNat?.getD 0, b.toNat?.getD 0)
              | _ => none,
            garbage := kind == "garbage", empty := kind == "empty",
            wrongsrc := (kv toks "src").getD "same" == "other", len := len }
          let s := if v.tcp then
              s.modSock fd fun v => { v with stream := v.stream ++ [(v.slen + 2 + len, r)], slen := v.slen + 2 + len }
            else s.modSock fd fun v => { v with rx := v.rx ++ [r] }
          render (s.emit s!"queued({fd},{len})") true
    else if op == "proc" then
      let rfd := match kv toks "rfd" with
        | some v => v.toNat?
        | none => txFd s toks "r"
      let wfd := match kv toks "wfd" with
        | some v => v.toNat?
        | none => txFd s toks "w"
      render (processFd s rfd wfd) true
    else if op == "tick" then render (processFd s none none) true
    else if op == "procall" then
      let open_ := s.socks.filter (·.isOpen)
      let writers := open_.filter fun v => ((s.conn? v.fd).map (·.notW)).getD false
      let readers := open_.filter fun v =>
        (!v.tcp && !v.rx.isEmpty) || (v.tcp && (v.spos < v.slen || v.eof || v.reset))
      let s := writers.foldl (fun s v => (exec fuelMax (.processWrite v.fd) s).1) s
      let s := readers.foldl (fun s v => (exec fuelMax (.processRead v.fd) s).1) s
      let fds := (s.sortedServers.map (·.conns)).flatten
      let s := (exec fuelMax (.cleanupConns fds) s).1
      render (exec fuelMax .processTimeouts s).1 true
    else if op == "adv" then
      let ms := match kv toks "ms" with
        | some v => v.toNat?.getD 0
        | none => (toks[1]?.bind String.toNat?).getD 0
      let s := { s with now := s.now + ms }
      render (s.emit s!"now={s.now}") true
    else if op == "cancel" then
      render (exec fuelMax .cancel s).1 true
    else if op == "destroy" then
      let (s, _) := exec fuelMax .destroy s
      let survivors := (s.socks.filter (·.isOpen)).length
      let s := if survivors > 0 then s.emit s!"MON:socket-survives-destroy({survivors})" else s
      render s false
    else if op == "sockfail" then
      let f : ScriptedFault := { call := (kv toks "call").getD "sendto", nth := kvNat toks "nth" 1,
                                 err := kvNat toks "errno" 111 }
      render ({ s with faults := s.faults ++ [f] }.emit "ok") true
    else if op == "chunks" then
      match txFd s toks "tx" with
      | some fd => render ((s.modSock fd fun v => { v with chunks := natList ((kv toks "sizes").getD "") }).emit "ok") true
      | none => render (s.emit "notx") true
    else if op == "wlimit" then
      let sizes := natList ((kv toks "sizes").getD "")
      match kv toks "tx" with
      | some _ =>
        match txFd s toks "tx" with
        | some fd => render (({ s with pendingWl := [] }.modSock fd fun v => { v with wl := sizes }).emit "ok") true
        | none => render ({ s with pendingWl := sizes }.emit "ok") true
      | none => render ({ s with pendingWl := sizes }.emit "ok") true
    else if op == "eof" || op == "reset" then
      match txFd s toks "tx" with
      | some fd =>
        render ((s.modSock fd fun v => if op == "eof" then { v with eof := true } else { v with reset := true }).emit "ok") true
      | none => render (s.emit "notx") true
    else if op == "selfip" then
      render ({ s with selfVariant := kvNat toks "v" 1 }.emit "ok") true
    else if op == "timeoutq" then
      let s' := s.settle
      let out := match s'.timeoutHint ((kv toks "maxtv").bind String.toNat?) with
        | some r => s!"timeout={r}"
        | none => "timeout=-"
      render (s.emit out) true
    else if op == "pendingwrite" then
      if !s.notifyPending then render s true else
      let s := { s with notifyPending := false }
      let s := s.sortedServers.foldl (fun s v =>
        match ((s.server? v.id).bind (·.tcpConn)) with
        | none => s
        | some fd =>
          let (s, r) := exec fuelMax (.flush fd) s
          if r != .ok then (exec fuelMax (.connError fd true r) s).1 else s) s
      render s true
    else render (s.emit "bad-op") true
  | [] => (s, "")

def main : IO Unit := loop ({} : St) step
