import CaresModel.Dns.Write
import CaresModel.Dns.Parse
import Driver.Loop
/-! Model driver for the `h_write` line protocol (see the header comment of `harness/h_write.c`). -/
open Cares.Dns Cares.Dns.NameW Cares.Dns.Build Cares.Dns.Write Driver

structure WriteState where
  recs : List (Nat × (Rec × Nat)) := []      -- handle ↦ (record, ttl_decrement)

def hexVal (c : Char) : Nat :=
  if '0' ≤ c && c ≤ '9' then c.toNat - 48
  else if 'a' ≤ c && c ≤ 'f' then c.toNat - 87
  else if 'A' ≤ c && c ≤ 'F' then c.toNat - 55
  else 0

def unhexList : List Char → BStr
  | a :: b :: rest => UInt8.ofNat (hexVal a * 16 + hexVal b) :: unhexList rest
  | _ => []

def unhex (s : String) : BStr := if s = "-" then [] else unhexList s.toList

/-- what C sees when the bytes are used as a NUL-terminated string -/
def cstrW (b : BStr) : BStr := b.takeWhile (· ≠ 0)

/-- `strtoul(s, NULL, 10)` on the digit prefix -/
def num (s : String) : Nat := (s.toList.takeWhile Char.isDigit).foldl (fun a c => a * 10 + (c.toNat - 48)) 0

def stLine (e : WErr) : String := "st=" ++ e.cls

def padTo (n : Nat) (b : BStr) : BStr := (b.take n) ++ List.replicate (n - (b.take n).length) 0

def parseArg (key : Nat) (v : String) : SetArg :=
  match keyDatatype key with
  | some .u8 => .u8 (num v % 256)
  | some .u16 => .u16 (num v % 65536)
  | some .u32 => .u32 (num v % 4294967296)
  | some .inaddr => .addr (padTo 4 (unhex v))
  | some .inaddr6 => .addr6 (padTo 16 (unhex v))
  | some .name => if v.startsWith "~" then .str none else .str (some (cstrW (unhex v)))
  | some .str => if v.startsWith "~" then .str none else .str (some (cstrW (unhex v)))
  | some .bin => .bin (unhex v)
  | some .binp => .bin (unhex v)
  | some .abinp => .abinAdd ((v.splitOn ",").map unhex)
  | some .opt =>
    let pairs := (v.splitOn ",").map fun p =>
      match p.splitOn ":" with
      | [a, b] => some (num a % 65536, unhex b)
      | _ => none
    if pairs.all Option.isSome then .opts (pairs.filterMap id) else .bogus
  | none => .bogus

def rrLine (sect : Nat) (name : BStr) (type cls ttl : Nat) (sets : List String) : Except WErr (RR × String) :=
  match rrNew sect name type cls ttl with
  | .error e => .error e
  | .ok rr =>
    let parsed : List (String × Option (Nat × SetArg)) := sets.map fun t =>
      match t.splitOn "=" with
      | k :: v :: rest => (k, some (num k, parseArg (num k) ("=".intercalate (v :: rest))))
      | _ => (t, none)
    -- a token without '=' is a failing setter
    let rec go (rr : RR) : List (String × Option (Nat × SetArg)) → RR × String
      | [] => (rr, "ok")
      | (txt, none) :: _ => (rr, "seterr " ++ txt)
      | (txt, some (k, a)) :: rest =>
        match applySet rr k a with
        | .ok rr' => go rr' rest
        | .error _ => (rr, "seterr " ++ txt)
    .ok (go rr parsed)

def hexMsg (b : BStr) : String := hex b

def step (s : WriteState) (toks : List String) : WriteState × String :=
  match toks with
  | ["new", h, id, fl, op, rc] =>
    match recordCreate (num id % 65536) (num fl % 65536) (num op) (num rc) with
    | .ok r => ({ s with recs := update (num h) (r, 0) s.recs }, "ok")
    | .error _ => (s, "err")
  | ["mkquery", name, cls, ty, id, rd, udp] =>
    let legacy := udp.startsWith "-"
    match legacyCreateQuery (cstrW (unhex name)) (num cls) (num ty) (num id % 65536) (num rd != 0)
        (if legacy then 0 else num udp) with
    | .ok b => (s, "st=ok " ++ hexMsg b)
    | .error e => (s, stLine e)
  | ["parse", h, flags, hexs] =>
    match Cares.Dns.parse (unhex hexs).toArray (num flags) with
    | .ok r => ({ s with recs := update (num h) (r, 0) s.recs }, "st=ok " ++ r.dump)
    | .err e => (s, "st=" ++ e.cls)
    | .fault _ => (s, "st=FAULT")
  | op :: h :: rest =>
    match lookup (num h) s.recs with
    | none => (s, "bad-handle")
    | some (r, dec) =>
      match op, rest with
      | "q", [name, qt, qc] =>
        match queryAdd r (cstrW (unhex name)) (num qt) (num qc) with
        | .ok r' => ({ s with recs := update (num h) (r', dec) s.recs }, "ok")
        | .error _ => (s, "err")
      | "rr", sect :: name :: ty :: cl :: ttl :: sets =>
        match rrLine (num sect) (cstrW (unhex name)) (num ty) (num cl) (num ttl % 4294967296) sets with
        | .error _ => (s, "err")
        | .ok (rr, out) => ({ s with recs := update (num h) (addToSect r (num sect) rr, dec) s.recs }, out)
      | "ttldec", [n] => ({ s with recs := update (num h) (r, num n % 4294967296) s.recs }, "ok")
      | "dump", [] => (s, r.dump)
      | "write", [] =>
        match write r dec with
        | .ok b => (s, "st=ok " ++ hexMsg b)
        | .error e => (s, stLine e)
      | "writetcp", [pre, consumed] =>
        let p := unhex pre
        let queued := p.drop (min (num consumed) p.length)
        match writeTcpFrame queued r dec with
        | .ok b => (s, "st=ok " ++ hexMsg b)
        | .error e => (s, stLine e)
      | "reparse", [h2] =>
        match write r dec with
        | .error e => (s, stLine e)
        | .ok b =>
          match Cares.Dns.parse b.toArray 0 with
          | .ok r2 => ({ s with recs := update (num h2) (r2, 0) s.recs }, "st=w-ok p-ok " ++ r2.dump)
          | .err e => (s, "st=w-ok p-" ++ e.cls)
          | .fault _ => (s, "st=w-ok p-FAULT")
      | _, _ => (s, "bad-op")
  | _ => (s, "bad-op")

def main : IO Unit := loop ({} : WriteState) step
