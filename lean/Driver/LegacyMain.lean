import CaresModel.Legacy.Parsers
import CaresModel.Legacy.RecView
import Driver.Loop
/-! Model driver for the `h_legacy` line protocol (trace mode: `msg <hex>` lines are replaced by the
    `rec st=<n> <dump>` line the implementation printed; `aifake` lines carry the observed inet_pton
    answers).  Output formats are those of harness/h_legacy.c. -/
open Cares.Legacy Cares.AddrInfo Driver

structure LState where
  haveMsg : Bool := false
  pres : ParseResult := .error .eformerr
  ai   : AddrInfo := {}

def hx (b : Bytes) : String := Cares.Dns.hex b
def hxo (b : Option Bytes) : String := Cares.Dns.hexOpt b
def commas (l : List String) : String := ",".intercalate l
def semis (l : List String) : String := ";".intercalate l

def hostStr : Option Hostent → String
  | none => "host=~"
  | some h => "host{name=" ++ hxo h.name ++ " aliases=[" ++ commas (h.aliases.map hx) ++ "] fam=" ++
      toString h.addrtype ++ " len=" ++ toString h.length ++ " addrs=[" ++ commas (h.addrs.map hx) ++ "]}"

def ttlsStr (l : List (Bytes × Int)) : String :=
  "[" ++ commas (l.map fun (p : Bytes × Int) => hx p.1 ++ "/" ++ toString p.2) ++ "]"

def aiStr (ai : AddrInfo) : String :=
  "name=" ++ hxo ai.name ++ " nodes=[" ++
    commas (ai.nodes.map fun n => toString n.family ++ "/" ++ hx n.addr ++ "/" ++ toString n.port ++ "/" ++ toString n.ttl) ++
    "] cnames=[" ++
    commas (ai.cnames.map fun c => toString c.ttl ++ "/" ++ hxo c.alias ++ "/" ++ hxo c.name) ++ "]"

def st (s : Status) : String := "st=" ++ toString s.code

def listOut {β : Type} (r : Status × List β) (f : β → String) : String :=
  st r.1 ++ " [" ++ semis (r.2.map f) ++ "]"

def slash (l : List String) : String := "/".intercalate l

def unhexArg (s : String) : Option Bytes := unhex s

def legCmd (s : LState) (fn : String) (args : List String) : String :=
  let p := s.pres
  match fn, args with
  | "a", [h, cap] | "aaaa", [h, cap] =>
    let capv : Option Nat := if cap = "-" then none else cap.toNat?
    let r := (if fn = "a" then parseAReply else parseAaaaReply) p (h ≠ "0") capv
    fn ++ " " ++ st r.status ++ " " ++ hostStr r.host ++ " nttl=" ++
      (match capv with | none => "-" | some _ => toString r.ttls.length) ++ " ttls=" ++ ttlsStr r.ttls
  | "caa", [] => fn ++ " " ++ listOut (parseCaaReply p) fun c =>
      slash [toString c.critical, hx c.prop, toString c.prop.length, hx c.value, toString c.value.length]
  | "mx", [] => fn ++ " " ++ listOut (parseMxReply p) fun m => slash [hx m.host, toString m.priority]
  | "naptr", [] => fn ++ " " ++ listOut (parseNaptrReply p) fun n =>
      slash [toString n.order, toString n.preference, hx n.flags, hx n.service, hx n.regexp, hx n.replacement]
  | "srv", [] => fn ++ " " ++ listOut (parseSrvReply p) fun v =>
      slash [hx v.host, toString v.priority, toString v.weight, toString v.port]
  | "uri", [] => fn ++ " " ++ listOut (parseUriReply p) fun u =>
      slash [toString u.priority, toString u.weight, hx u.uri, toString u.ttl]
  | "txt", [] => fn ++ " " ++ listOut (parseTxtReply p) fun t =>
      slash [hx t.txt, toString t.txt.length, if t.recordStart then "1" else "0"]
  | "txtext", [] => fn ++ " " ++ listOut (parseTxtReplyExt p) fun t =>
      slash [hx t.txt, toString t.txt.length, if t.recordStart then "1" else "0"]
  | "soa", [] =>
    let r := parseSoaReply p
    fn ++ " " ++ st r.1 ++ " soa=" ++ (match r.2 with
      | none => "~"
      | some o => slash [hx o.nsname, hx o.hostmaster, toString o.serial, toString o.refresh, toString o.retry,
                         toString o.expire, toString o.minttl])
  | "ns", [] =>
    let r := parseNsReply p
    fn ++ " " ++ st r.1 ++ " " ++ hostStr r.2
  | "ptr", [addr, fam] =>
    match (if addr = "~" then some [] else unhexArg addr), fam.toNat? with
    | some a, some f =>
      let r := parsePtrReplyBuf p (if a.isEmpty then none else some a) a.length f
      fn ++ " " ++ st r.1 ++ " " ++ hostStr r.2
    | _, _ => "bad-op"
  | _, _ => "bad-op"

def parseSrcSpec (family : Nat) (s : String) : SrcSpec :=
  if s = "x" ∨ s = "-" then .noSrc
  else
    let pick := match s.splitOn "/" with
      | [v4, v6] => if family = afINET6 then v6 else v4
      | _ => s
    match unhex pick with
    | some a => if a.length = 4 then .src afINET a else if a.length = 16 then .src afINET6 a else .fatal
    | none => .fatal

def mkSpecs : List AddrNode → List String → List SrcSpec
  | [], _ => []
  | n :: ns, ss => parseSrcSpec n.family (ss.headD "") :: mkSpecs ns ss.tail

def parsePattern (s : String) : Option Pattern :=
  match s.splitOn ":" with
  | [fam, rest] =>
    match rest.splitOn "/" with
    | [a, m] => do
      let f ← fam.toNat?
      let ab ← unhex a
      let mk ← m.toNat?
      pure { family := f, addr := ab, mask := mk % 256 }
    | _ => none
  | _ => none

def step (s : LState) (toks : List String) : LState × String :=
  match toks with
  | "rec" :: stTok :: rest =>
    match (stTok.splitOn "=") with
    | ["st", n] =>
      match n.toNat? with
      | none => (s, "bad-op")
      | some code =>
        if code = 0 then
          match parseDump (" ".intercalate rest) with
          | some r => ({ s with haveMsg := true, pres := .ok (LRec.ofRec r) }, "rec st=0 " ++ r.dump)
          | none => ({ s with haveMsg := true, pres := .error (.other 999) }, "rec st=0 <unreadable dump>")
        else ({ s with haveMsg := true, pres := .error (Status.ofCode code) }, "rec st=" ++ toString code ++ " -")
    | _ => (s, "bad-op")
  | "leg" :: fn :: args => if s.haveMsg then (s, legCmd s fn args) else (s, "no-msg")
  | ["ainew"] => ({ s with ai := {} }, "ok")
  | ["aiadd", port, cn] =>
    match s.pres, port.toNat? with
    | .ok r, some p =>
      let (stt, ai) := parseIntoAddrinfo r (cn ≠ "0") p s.ai
      ({ s with ai := ai }, st stt ++ " " ++ aiStr ai)
    | .error _, _ => (s, "no-rec")
    | _, _ => (s, "bad-op")
  | ["ailocal", name, port, fam] =>
    match unhex name, port.toNat?, fam.toNat? with
    | some n, some p, some f =>
      let (stt, ai) := addrinfoLocalhost n p f s.ai
      ({ s with ai := ai }, st stt ++ " " ++ aiStr ai)
    | _, _, _ => (s, "bad-op")
  | ["aifake", name, port, fam, flags, p4, p6] =>
    match unhex name, port.toNat?, fam.toNat?, flags.toNat?, unhexOpt p4, unhexOpt p6 with
    | some n, some p, some f, some fl, some a4, some a6 =>
      match fakeAddrinfo n p f fl a4 a6 {} with
      | some ai => ({ s with ai := ai }, "p4=" ++ p4 ++ " p6=" ++ p6 ++ " res=lit " ++ aiStr ai)
      | none => (s, "p4=" ++ p4 ++ " p6=" ++ p6 ++ " res=notliteral")
    | _, _, _, _, _, _ => (s, "bad-op")
  | ["ai2h", fam] =>
    match fam.toNat? with
    | some f => let r := addrinfo2hostent s.ai f; (s, st r.1 ++ " " ++ hostStr r.2)
    | none => (s, "bad-op")
  | ["ai2t", fam, cap] =>
    match fam.toNat?, cap.toNat? with
    | some f, some c =>
      let r := addrinfo2addrttl s.ai f c
      (s, st r.1 ++ " n=" ++ toString r.2.length ++ " ttls=" ++ ttlsStr r.2)
    | _, _ => (s, "bad-op")
  | ["aisort", script] =>
    let sp := mkSpecs s.ai.nodes (if script = "-" then [] else script.splitOn ",")
    let (stt, nodes, unique) := sortAddrinfo s.ai.nodes sp
    let ai := { s.ai with nodes := nodes }
    ({ s with ai := ai }, (if unique then "" else "ambiguous ") ++ st stt ++ " " ++ aiStr ai)
  | ["addr2ptr", fam, addr] =>
    match fam.toNat?, unhex addr with
    | some f, some a =>
      if (f = afINET ∧ a.length ≠ 4) ∨ (f = afINET6 ∧ a.length ≠ 16) then (s, "bad-op")
      else match addrToPtr f a with
        | some n => (s, hx n)
        | none => (s, "none")
    | _, _ => (s, "bad-op")
  | ["sortlist", fam, pats, addrs] =>
    let ps := if pats = "-" then some [] else (pats.splitOn ",").mapM parsePattern
    let as := if addrs = "-" then some [] else (addrs.splitOn ",").mapM unhex
    match fam.toNat?, ps, as with
    | some f, some ps, some as =>
      (s, "[" ++ commas ((sortAddresses (addressIndex f ps) as).map hx) ++ "]")
    | _, _, _ => (s, "bad-op")
  | _ => (s, "bad-op")

def main : IO Unit := loop ({} : LState) step
