import CaresModel.Dns.Parse
import CaresModel.Dns.Rfc
import Driver.Loop
/-! Model driver for the `h_codec` line protocol (DESIGN.md appendix A.2): decoders.
    `parse <flags> <hex>`, `xname <abuf-hex> <off>`, `xstr <abuf-hex> <off>`. -/
open Cares.Dns Driver

def hexVal (c : Char) : Nat :=
  if '0' ≤ c ∧ c ≤ '9' then c.toNat - 48
  else if 'a' ≤ c ∧ c ≤ 'f' then c.toNat - 87
  else if 'A' ≤ c ∧ c ≤ 'F' then c.toNat - 55
  else 0

/-- lower-case hex (or `-`) to bytes -/
def unhex (s : String) : Bytes :=
  if s = "-" then #[] else
  let rec go (cs : List Char) (acc : Bytes) : Bytes :=
    match cs with
    | a :: b :: rest => go rest (acc.push (hexVal a * 16 + hexVal b).toUInt8)
    | _ => acc
  go s.toList (Array.mkEmpty (s.length / 2))

def faultStr : FaultKind → String
  | .oobRead => "st=FAULT:oob-read"
  | .underflow => "st=FAULT:underflow"

def doParse (flags : Nat) (bs : Bytes) : String :=
  match parse bs flags with
  | .ok r => "st=ok " ++ r.dump
  | .err e => "st=" ++ e.cls
  | .fault k => faultStr k

def doXname (bs : Bytes) (off : Nat) : String :=
  if off > bs.size then "bad-op" else
  match expandName bs off with
  | .ok (n, len) => "st=ok n=" ++ hex n ++ " len=" ++ toString len
  | .err e => "st=" ++ e.cls
  | .fault k => faultStr k

def doXstr (bs : Bytes) (off : Nat) : String :=
  if off > bs.size then "bad-op" else
  match expandString bs off with
  | .ok (s, len) => "st=ok s=" ++ hex (cstr s) ++ " len=" ++ toString len
  | .err e => "st=" ++ e.cls
  | .fault k => faultStr k

/-- the declarative reference (C04): `st=ok <dump>` when the message is in the supported subset,
    `st=unsup <dump>` when it decodes but c-ares need not accept it, `st=badresp` when it does not decode -/
def doRfc (bs : Bytes) : String :=
  match Rfc.decode bs with
  | none => "st=badresp"
  | some m =>
    match m.toRec with
    | none => "st=badresp"
    | some r => (if Rfc.supported bs m then "st=ok " else "st=unsup ") ++ r.dump

/-- `ares_dns_name_write(buf, NULL, FALSE, name)`: the labels `ares_split_dns_name` finds, on the wire -/
def doSplit (name : Bytes) : String :=
  if name.toList.contains 0 then "bad-op" else
  match splitDnsName false name.toList with
  | .error e => "st=" ++ e.cls
  | .ok labels => "st=ok w=" ++ hex (labels.flatMap (fun l => (l.length % 256).toUInt8 :: l) ++ [0])

def step (s : Unit) (toks : List String) : Unit × String :=
  match toks with
  | ["parse", flags, h] =>
    match flags.toNat? with
    | some f => (s, doParse f (unhex h))
    | none => (s, "bad-op")
  | ["rfc", h] => (s, doRfc (unhex h))
  | ["split", h] => (s, doSplit (unhex h))
  | ["xname", h, off] =>
    match off.toNat? with
    | some o => (s, doXname (unhex h) o)
    | none => (s, "bad-op")
  | ["xstr", h, off] =>
    match off.toNat? with
    | some o => (s, doXstr (unhex h) o)
    | none => (s, "bad-op")
  | _ => (s, "bad-op")

def main : IO Unit := loop () step
