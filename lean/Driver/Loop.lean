/-! Line-protocol loop shared by all model drivers: one input line → exactly one output line.
    `case <n>` resets the model state and is echoed; `#` lines are copied through. -/
namespace Driver

def tokens (line : String) : List String :=
  (line.trimAscii.toString.splitOn " ").filter (· ≠ "")

partial def loop {σ : Type} (init : σ) (step : σ → List String → σ × String) : IO Unit := do
  let stdin ← IO.getStdin
  let stdout ← IO.getStdout
  let rec go (s : σ) : IO Unit := do
    let line ← stdin.getLine
    if line.isEmpty then
      stdout.flush
      return ()
    let toks := tokens line
    match toks with
    | [] => stdout.putStrLn ""; go s
    | "case" :: _ => stdout.putStrLn (" ".intercalate toks); go init
    | t :: _ =>
      if t.startsWith "#" then
        stdout.putStrLn (" ".intercalate toks); go s
      else
        let (s', out) := step s toks
        stdout.putStrLn out
        go s'
  go init

def showList (l : List Nat) : String := "[" ++ " ".intercalate (l.map toString) ++ "]"

def lookup {α : Type} (k : Nat) : List (Nat × α) → Option α
  | [] => none
  | (k', v) :: r => if k = k' then some v else lookup k r

def update {α : Type} (k : Nat) (v : α) : List (Nat × α) → List (Nat × α)
  | [] => [(k, v)]
  | (k', v') :: r => if k = k' then (k, v) :: r else (k', v') :: update k v r

def remove {α : Type} (k : Nat) (l : List (Nat × α)) : List (Nat × α) := l.filter (·.1 ≠ k)

end Driver
