import CaresModel.Text.Resolv
import CaresModel.Options
import CaresModel.Proto.Search
import Driver.Loop
/-! Model driver for the `h_text` line protocol (DESIGN.md appendix A.3). -/
open Cares.Text Cares.Proto Driver

namespace TextDriver

def hexNib (c : Char) : Option Nat :=
  if '0' ≤ c && c ≤ '9' then some (c.toNat - 48)
  else if 'a' ≤ c && c ≤ 'f' then some (c.toNat - 87)
  else if 'A' ≤ c && c ≤ 'F' then some (c.toNat - 55)
  else none

def unhexAux : List Char → Bytes → Bytes
  | a :: b :: r, acc =>
    match hexNib a, hexNib b with
    | some x, some y => unhexAux r ((x * 16 + y) :: acc)
    | _, _ => unhexAux r (0 :: acc)
  | _, acc => acc.reverse

/-- `h_unhex`: `-` is the empty string -/
def unhex (s : String) : Bytes := if s = "-" then [] else unhexAux s.toList []

/-- what the harness hands to the C API: a C string (cut at the first NUL) -/
def unhexC (s : String) : Bytes := cstr (unhex s)

def nibCh (n : Nat) : Char := if n < 10 then Char.ofNat (48 + n) else Char.ofNat (87 + n)

def hex (b : Bytes) : String :=
  if b.isEmpty then "-" else String.ofList (b.flatMap (fun x => [nibCh (x / 16 % 16), nibCh (x % 16)]))

def hexOpt : Option Bytes → String
  | none => "none"
  | some b => hex b

def hexRaw (b : Bytes) : String := String.ofList (b.flatMap (fun x => [nibCh (x / 16 % 16), nibCh (x % 16)]))

def showAddr : Addr → String
  | .v4 o => "4:" ++ hexRaw o
  | .v6 o => "6:" ++ hexRaw o

def parseAddr (s : String) : Option Addr :=
  if s.startsWith "4:" then
    let b := unhex (s.drop 2).toString
    if b.length = 4 then some (.v4 b) else none
  else if s.startsWith "6:" then
    let b := unhex (s.drop 2).toString
    if b.length = 16 then some (.v6 b) else none
  else none

structure St where
  ifaces : List (Bytes × Nat) := []
  files : List (String × Option Bytes) := []
  envLocaldomain : Option Bytes := none
  envResOptions : Option Bytes := none
  envHostaliases : Option Bytes := none
  hostDomain : Option Bytes := none
  chans : List (Nat × Chan) := []
  /-- application socket functions installed on a handle (op `appif`): one more interface than the libc table knows -/
  appIfs : List (Nat × (Bytes × Nat)) := []

def isVirtualPath (p : String) : Bool :=
  p = "/etc/resolv.conf" || p = "/etc/nsswitch.conf" || p = "/etc/netsvc.conf" || p = "/etc/svc.conf" ||
  p = "/etc/hosts" || p.startsWith "/virt/"

def St.file (s : St) (p : String) : Option Bytes :=
  match s.files.find? (fun x => x.1 = p) with
  | some (_, c) => c
  | none => none

def St.setFile (s : St) (p : String) (c : Option Bytes) : St :=
  { s with files := (s.files.filter (fun x => x.1 ≠ p)) ++ [(p, c)] }

def St.ifs (s : St) : Ifaces := some s.ifaces

def St.sysFiles (s : St) (resolvPath : Option String := none) : SysFiles :=
  { resolv := s.file (resolvPath.getD "/etc/resolv.conf"), nsswitch := s.file "/etc/nsswitch.conf",
    netsvc := s.file "/etc/netsvc.conf", svc := s.file "/etc/svc.conf" }

def St.aliasSrc (s : St) : AliasSrc :=
  match s.envHostaliases with
  | none => .unset
  | some p =>
    match s.file (String.ofList (p.map Char.ofNat)) with
    | some t => .file t
    | none => .missing

def showServer (x : Server) : String :=
  showAddr x.addr ++ "/" ++ toString x.udp ++ "/" ++ toString x.tcp ++ "/" ++ hex x.iface ++
    (if x.iface.isEmpty then "" else "/" ++ toString x.scope)

def showServers (l : List Server) : String := "servers=[" ++ " ".intercalate (l.map showServer) ++ "]"

def showSort (l : List Pat) : String :=
  "sort=[" ++ " ".intercalate (l.map (fun p => showAddr p.addr ++ "/" ++ toString p.mask)) ++ "]"

def showStrList (key : String) (l : Option (List Bytes)) : String :=
  key ++ "=" ++ (match l with
    | none => "none"
    | some x => "[" ++ ",".intercalate (x.map hex) ++ "]")

def b2n (b : Bool) : String := if b then "1" else "0"

def dumpSysconfig (st : Status) (sc : SysConfig) : String :=
  let servers := serversUpdate 0 0 false [] (sc.sconfig.getD [])
  "st=" ++ st.cls ++ " nsconf=" ++ toString (sc.sconfig.getD []).length ++ " " ++ showServers servers ++ " " ++
    showSort sc.sortlist ++ " " ++ showStrList "domains" sc.domains ++ " lookups=" ++ hexOpt sc.lookups ++
    " ndots=" ++ toString sc.ndots ++ " tries=" ++ toString sc.tries ++ " rotate=" ++ b2n sc.rotate ++
    " timeout=" ++ toString sc.timeoutMs ++ " usevc=" ++ b2n sc.usevc

def parseIfaces (t : String) : List (Bytes × Nat) :=
  if t = "-" then [] else
  (t.splitOn ",").filterMap (fun x => match x.splitOn ":" with
    | [n, i] => some (n.toList.map Char.toNat, i.toNat!)
    | _ => none)

def showEntry (e : HostsEntry) : String :=
  let primary := e.hosts.headD []
  let aliases := (e.hosts.drop 1).take 100
  let addrs := e.ips.filterMap (dnsPton .unspec)
  "ok|" ++ hex primary ++ ";al=" ++ ",".intercalate (aliases.map hex) ++ ";ad=" ++ ",".intercalate (addrs.map showAddr)

def hostsQuery (hf : Option HostsFile) (q : String) : String :=
  let arg := unhexC (q.drop 2).toString
  match hf with
  | none => "notfound"
  | some h =>
    if q.startsWith "a:" then
      match searchIp h arg with
      | .ok e => showEntry e
      | .error true => "err"
      | .error false => "notfound"
    else
      match searchHost h arg with
      | some e => showEntry e
      | none => "notfound"

def parseFlags (t : String) : Nat :=
  if t.startsWith "0x" then (unhex (let h := (t.drop 2).toString; if h.length % 2 = 1 then "0" ++ h else h)).foldl (fun a b => a * 256 + b) 0
  else t.toNat!

def bitOf (n k : Nat) : Bool := n / 2 ^ k % 2 == 1

def maskOfNat (n : Nat) : Mask :=
  { flags := bitOf n 0, timeout := bitOf n 1, tries := bitOf n 2, ndots := bitOf n 3, udpPort := bitOf n 4, tcpPort := bitOf n 5,
    servers := bitOf n 6, domains := bitOf n 7, lookups := bitOf n 8, sockStateCb := bitOf n 9, sortlist := bitOf n 10,
    sndbuf := bitOf n 11, rcvbuf := bitOf n 12, timeoutms := bitOf n 13, rotate := bitOf n 14, ednspsz := bitOf n 15,
    norotate := bitOf n 16, resolvconf := bitOf n 17, hostsFile := bitOf n 18, udpMaxQueries := bitOf n 19,
    maxtimeoutms := bitOf n 20, queryCache := bitOf n 21, eventThread := bitOf n 22, serverFailover := bitOf n 23,
    extra := n / 2 ^ 24 }

def natOfMask (m : Mask) : Nat :=
  let b (x : Bool) (k : Nat) : Nat := if x then 2 ^ k else 0
  b m.flags 0 + b m.timeout 1 + b m.tries 2 + b m.ndots 3 + b m.udpPort 4 + b m.tcpPort 5 + b m.servers 6 + b m.domains 7 +
  b m.lookups 8 + b m.sockStateCb 9 + b m.sortlist 10 + b m.sndbuf 11 + b m.rcvbuf 12 + b m.timeoutms 13 + b m.rotate 14 +
  b m.ednspsz 15 + b m.norotate 16 + b m.resolvconf 17 + b m.hostsFile 18 + b m.udpMaxQueries 19 + b m.maxtimeoutms 20 +
  b m.queryCache 21 + b m.eventThread 22 + b m.serverFailover 23 + m.extra * 2 ^ 24

def hexDigitsNat (n : Nat) : String := String.ofList (Nat.toDigits 16 n)

def showHexNat (n : Nat) : String := "0x" ++ hexDigitsNat n

def parseHexNat (t : String) : Nat := t.toList.foldl (fun a c => a * 16 + (hexNib c).getD 0) 0

/-- `strtol(v, NULL, 0)` for the forms the generators write: decimal (optionally signed) or 0x… -/
def parseInt (t : String) : Int :=
  if t.startsWith "-" then -((parseInt1 (t.drop 1).toString : Nat) : Int) else ((parseInt1 t : Nat) : Int)
where
  parseInt1 (t : String) : Nat := if t.startsWith "0x" then parseHexNat (t.drop 2).toString else t.toNat!

def kv (toks : List String) (key : String) : Option String :=
  (toks.find? (fun t => t.startsWith (key ++ "="))).map (fun t => (t.drop (key.length + 1)).toString)

def kvInt (toks : List String) (key : String) : Int := ((kv toks key).map parseInt).getD 0

def toInt32' (i : Int) : Int := toInt32 (i % 4294967296).toNat

def pathBytes (p : String) : Bytes := p.toList.map Char.toNat
def pathString (b : Bytes) : String := String.ofList (b.map Char.ofNat)

def St.sysEnv (s : St) : SysEnv :=
  { ifs := some s.ifaces, files := fun p => s.file (pathString p), nsswitch := s.file "/etc/nsswitch.conf",
    netsvc := s.file "/etc/netsvc.conf", svc := s.file "/etc/svc.conf", localdomain := s.envLocaldomain,
    resOptions := s.envResOptions, hostDomain := s.hostDomain }

def parsePat (t : String) : Option Pat :=
  match t.splitOn "/" with
  | [a, m] => (parseAddr a).map (fun ad => { addr := ad, mask := m.toNat! % 256 })
  | _ => none

def parseOptions (toks : List String) : Options :=
  let servers : List (List Nat) := match kv toks "servers" with
    | some v => if v = "-" then [] else (v.splitOn ",").filterMap (fun x => match parseAddr x with
        | some (.v4 o) => some o
        | _ => none)
    | none => []
  let hasServers := (kv toks "servers").isSome && kv toks "servers" != some "-"
  let domains : List Bytes := match kv toks "domains" with
    | some v => if v = "-" then [] else (v.splitOn ",").map unhexC
    | none => []
  let hasDomains := (kv toks "domains").isSome && kv toks "domains" != some "-"
  let sort : List Pat := match kv toks "sort" with
    | some v => if v = "-" then [] else (v.splitOn ",").filterMap parsePat
    | none => []
  let hasSort := (kv toks "sort").isSome && kv toks "sort" != some "-"
  { flags := toInt32' (kvInt toks "flags"), timeout := toInt32' (kvInt toks "timeout"), tries := toInt32' (kvInt toks "tries"),
    ndots := toInt32' (kvInt toks "ndots"), maxtimeout := toInt32' (kvInt toks "maxtimeout"),
    udpPort := (kvInt toks "udpport" % 65536).toNat, tcpPort := (kvInt toks "tcpport" % 65536).toNat,
    sndbuf := toInt32' (kvInt toks "sndbuf"), rcvbuf := toInt32' (kvInt toks "rcvbuf"),
    ednspsz := toInt32' (kvInt toks "ednspsz"), udpMaxQueries := toInt32' (kvInt toks "udpmaxq"),
    qcacheMaxTtl := (kvInt toks "qcache" % 4294967296).toNat,
    retryChance := (kvInt toks "retrychance" % 65536).toNat, retryDelay := (kvInt toks "retrydelay").toNat,
    servers := servers,
    nservers := if hasServers && (kv toks "nservers").isNone then servers.length else toInt32' (kvInt toks "nservers"),
    domains := domains,
    ndomains := if hasDomains then domains.length else toInt32' (kvInt toks "ndomains"),
    lookups := match kv toks "lookups" with
      | some v => if v = "null" then none else some (unhexC v)
      | none => none,
    sortlist := sort,
    nsort := if hasSort && (kv toks "nsort").isNone then sort.length else toInt32' (kvInt toks "nsort"),
    resolvPath := match kv toks "resolvpath" with
      | some v => if v = "null" then none else some (pathBytes v)
      | none => none,
    hostsPath := match kv toks "hostspath" with
      | some v => if v = "null" then none else some (pathBytes v)
      | none => none }

def showEff (c : Chan) : String :=
  showServers c.servers ++ " " ++ showStrList "domains" (some c.domains) ++ " lookups=" ++ hexOpt c.lookups ++ " " ++
  showSort c.sortlist ++ " ndots=" ++ toString c.ndots ++ " tries=" ++ toString c.tries ++ " timeout=" ++ toString c.timeout ++
  " maxtimeout=" ++ toString c.maxtimeout ++ " rotate=" ++ b2n c.rotate ++ " flags=" ++ showHexNat c.flags ++
  " udpport=" ++ toString c.udpPort ++ " tcpport=" ++ toString c.tcpPort ++ " sndbuf=" ++ toString c.sndbuf ++
  " rcvbuf=" ++ toString c.rcvbuf ++ " ednspsz=" ++ toString c.ednspsz ++ " udpmaxq=" ++ toString c.udpMaxQueries ++
  " qcache=" ++ toString c.qcacheMaxTtl ++ " retry=" ++ toString c.retryChance ++ "/" ++ toString c.retryDelay ++
  " mask=" ++ showHexNat (natOfMask c.optmask) ++ " resolv=" ++ hexOpt c.resolvPath ++ " hosts=" ++ hexOpt c.hostsPath

def showSaved (o : Options) (m : Mask) : String :=
  let f (b : Bool) (x : String) : String := if b then " " ++ x else ""
  "mask=" ++ showHexNat (natOfMask m) ++
  f m.flags ("flags=" ++ showHexNat (toU32 o.flags)) ++ f m.timeoutms ("timeout=" ++ toString o.timeout) ++
  f m.tries ("tries=" ++ toString o.tries) ++ f m.ndots ("ndots=" ++ toString o.ndots) ++
  f m.maxtimeoutms ("maxtimeout=" ++ toString o.maxtimeout) ++ f m.udpPort ("udpport=" ++ toString o.udpPort) ++
  f m.tcpPort ("tcpport=" ++ toString o.tcpPort) ++
  f m.servers ("servers=[" ++ " ".intercalate (o.servers.map (fun x => "4:" ++ hexRaw x)) ++ "]") ++
  f m.domains (showStrList "domains" (some o.domains)) ++ f m.lookups ("lookups=" ++ hexOpt o.lookups) ++
  f m.sortlist (showSort o.sortlist) ++ f m.resolvconf ("resolv=" ++ hexOpt o.resolvPath) ++
  f m.hostsFile ("hosts=" ++ hexOpt o.hostsPath) ++ f m.sndbuf ("sndbuf=" ++ toString o.sndbuf) ++
  f m.rcvbuf ("rcvbuf=" ++ toString o.rcvbuf) ++ f m.ednspsz ("ednspsz=" ++ toString o.ednspsz) ++
  f m.udpMaxQueries ("udpmaxq=" ++ toString o.udpMaxQueries) ++ f m.queryCache ("qcache=" ++ toString o.qcacheMaxTtl) ++
  f m.serverFailover ("retry=" ++ toString o.retryChance ++ "/" ++ toString o.retryDelay)

/-- interfaces a channel can resolve: the libc table first, then the application's extra one -/
def St.ifsFor (s : St) (h : Nat) : Ifaces :=
  some (s.ifaces ++ (match s.appIfs.find? (fun x => x.1 == h) with | some e => [e.2] | none => []))

def St.envFor (s : St) (h : Nat) : SysEnv := { s.sysEnv with ifs := s.ifsFor h }

def St.setAppIf (s : St) (h : Nat) (e : Option (Bytes × Nat)) : St :=
  { s with appIfs := (s.appIfs.filter (fun x => x.1 != h)) ++ (match e with | some v => [(h, v)] | none => []) }

def St.setChan (s : St) (h : Nat) (c : Option Chan) : St :=
  match c with
  | some x => { s with chans := update h x s.chans }
  | none => { s with chans := remove h s.chans }

def chanOp (s : St) (cmd : String) (h : Nat) (args : List String) : St × String :=
  match lookup h s.chans with
  | none => (s, "bad-handle")
  | some c =>
    match cmd, args with
    | "eff", [] => (s, showEff c)
    | "save", [] =>
      (match saveOptions c with
        | .ok (o, m) => (s, "st=ok " ++ showSaved o m)
        | .error e => (s, "st=" ++ e.cls ++ " "))
    | "saveinit", [d] =>
      let dn := d.toNat!
      if dn = h || dn ≥ 8 then (s, "bad-handle") else
      let r : Except Status Chan := match saveOptions c with
        | .ok (o, m) => initOptions s.sysEnv (some o) m
        | .error e => .error e
      (match r with
        | .ok x => ((s.setAppIf dn none).setChan dn (some x), "st=ok " ++ showEff x)
        | .error e => ((s.setAppIf dn none).setChan dn none, "st=" ++ e.cls))
    | "dup", [d] =>
      let dn := d.toNat!
      if dn = h || dn ≥ 8 then (s, "bad-handle") else
      -- ares_dup copies the socket functions before it re-applies the server list
      let app := (s.appIfs.find? (fun x => x.1 == h)).map (·.2)
      (match dup c (s.envFor h) with
        | .ok x => ((s.setAppIf dn app).setChan dn (some x), "st=ok " ++ showEff x)
        | .error e => ((s.setAppIf dn none).setChan dn none, "st=" ++ e.cls))
    | "appif", [n, i] => (s.setAppIf h (some (unhexC n, i.toNat!)), "st=ok")
    | "csv", [] => (s, hexOpt (getServersCsv c))
    | "csvfix", [] =>
      let csv1 := getServersCsv c
      let r : Status × Chan := match csv1 with
        | some t => setServersCsv c (s.ifsFor h) (cstr t)
        | none => (.enomem, c)
      (s.setChan h (some r.2), "st=" ++ r.1.cls ++ " csv1=" ++ hexOpt csv1 ++ " csv2=" ++ hexOpt (getServersCsv r.2) ++ " " ++
        showServers r.2.servers)
    | "setcsv", [t] =>
      let r := setServersCsv c (s.ifsFor h) (unhexC t)
      (s.setChan h (some r.2), "st=" ++ r.1.cls ++ " " ++ showServers r.2.servers ++ " mask=" ++ showHexNat (natOfMask r.2.optmask))
    | "setsortlist", [t] =>
      let r := setSortlist c (unhexC t)
      (s.setChan h (some r.2), "st=" ++ r.1.cls ++ " " ++ showSort r.2.sortlist ++ " mask=" ++ showHexNat (natOfMask r.2.optmask))
    | "setports", [t] =>
      let l : List (Addr × Nat × Nat) := if t = "-" then [] else (t.splitOn ",").filterMap (fun x => match x.splitOn "/" with
        | [a, u, p] => (parseAddr a).map (fun ad => (ad, ((parseInt u) % 65536).toNat, ((parseInt p) % 65536).toNat))
        | _ => none)
      let c' := setServersPorts c l
      (s.setChan h (some c'), "st=ok " ++ showServers c'.servers ++ " mask=" ++ showHexNat (natOfMask c'.optmask))
    | "reinit", [] =>
      let c' := reinit c (s.envFor h)
      (s.setChan h (some c'), "st=ok " ++ showEff c')
    | "destroy", [] => ((s.setAppIf h none).setChan h none, "ok")
    | _, _ => (s, "bad-op")

def parseOutcome (o : String) : Status :=
  if o = "noerror" then .success else if o = "nodata" then .enodata else if o = "nxdomain" then .enotfound
  else if o = "servfail" then .eservfail else if o = "refused" then .erefused else if o = "formerr" then .eformerr
  else if o = "notimp" then .enotimp else .etimeout

def statusName : Status → String
  | .success => "success" | .enodata => "enodata" | .eformerr => "eformerr" | .eservfail => "eservfail"
  | .enotfound => "enotfound" | .enotimp => "enotimp" | .erefused => "erefused" | .ebadquery => "ebadquery"
  | .ebadname => "ebadname" | .ebadfamily => "ebadfamily" | .ebadresp => "ebadresp" | .econnrefused => "econnrefused"
  | .etimeout => "etimeout" | .eof => "eof" | .efile => "efile" | .enomem => "enomem" | .edestruction => "edestruction"
  | .ebadstr => "ebadstr" | .ecancelled => "ecancelled" | .enoserver => "enoserver" | _ => "other"

/-- a name as it appears in the question section: without the final dot -/
def wireName (n : Bytes) : Bytes := if n.length > 1 && n.getLast? == some 46 then n.dropLast else n

def step (s : St) (toks : List String) : St × String :=
  match toks with
  | ["ifaces", t] => ({ s with ifaces := parseIfaces t }, "ok")
  | ["file", p, c] =>
    if !isVirtualPath p then (s, "bad-op")
    else (s.setFile p (if c = "none" then none else some (unhex c)), "ok")
  | ["env", n, v] =>
    let val := if v = "none" then none else some (unhexC v)
    if n = "LOCALDOMAIN" then ({ s with envLocaldomain := val }, "ok")
    else if n = "RES_OPTIONS" then ({ s with envResOptions := val }, "ok")
    else if n = "HOSTALIASES" then ({ s with envHostaliases := val }, "ok")
    else (s, "bad-op")
  | ["resolv", h] =>
    let r := processBuf (resolvLine s.ifs) {} (unhex h)
    (s, dumpSysconfig r.1 r.2)
  | ["sysfiles", pr] =>
    let r := initSysconfigFiles true s.ifs {} s.sysFiles (pr ≠ "0")
    (s, dumpSysconfig r.1 r.2)
  | ["setopts", h] =>
    let r := setOptions true {} (unhexC h)
    (s, dumpSysconfig r.1 r.2)
  | ["envinit"] =>
    let r := initByEnvironment {} s.envLocaldomain s.envResOptions
    (s, dumpSysconfig r.1 r.2)
  | ["sortlist", h] =>
    let r := parseSortlist (unhexC h)
    (s, "st=" ++ r.1.cls ++ " " ++ showSort r.2)
  | ["servers", h, ign] =>
    let r := appendFromStr s.ifs none (unhexC h) (ign ≠ "0")
    (s, "st=" ++ r.1.cls ++ " nsconf=" ++ toString (r.2.getD []).length ++ " " ++
        showServers (serversUpdate 0 0 false [] (r.2.getD [])))
  | "hosts" :: p :: qs =>
    let hf := (s.file p).map parseHosts
    (s, if qs.isEmpty then "ok" else " ".intercalate (qs.map (hostsQuery hf)))
  | ["aliases", n, fl] =>
    match lookupHostaliases (parseFlags fl / 64 % 2 = 1) s.aliasSrc (unhexC n) with
    | .ok a => (s, "st=ok alias=" ++ hex a)
    | .error e => (s, "st=" ++ e.cls ++ " alias=none")
  | ["namelist", n, nd, fl, doms] =>
    let flags := parseFlags fl
    let cfg : Config := { ndots := nd.toNat!, domains := if doms = "-" then [] else (doms.splitOn ",").map unhexC,
                          noSearch := flags / 32 % 2 = 1, noAliases := flags / 64 % 2 = 1, aliases := s.aliasSrc }
    match nameList cfg (unhexC n) with
    | .ok l => (s, "st=ok " ++ showStrList "names" (some l))
    | .error e => (s, "st=" ++ e.cls ++ " names=none")
  | ["walk", api, n, nd, fl, doms, ocs] =>
    let flags := parseFlags fl
    let cfg : Config := { ndots := nd.toNat!, domains := if doms = "-" then [] else (doms.splitOn ",").map unhexC,
                          noSearch := flags / 32 % 2 = 1, noAliases := flags / 64 % 2 = 1, aliases := s.aliasSrc }
    let os := (ocs.splitOn ",").map parseOutcome
    let r := if api = "gai" then gaiWalk cfg (unhexC n) os else searchWalk cfg (unhexC n) os
    (s, "sent=[" ++ ",".intercalate (r.1.map (fun x => hex (wireName x))) ++ "] st=" ++ statusName r.2)
  | ["hostdomain", d] => ({ s with hostDomain := if d = "none" then none else some (unhexC d) }, "ok")
  | "init" :: h :: rest =>
    let hn := h.toNat!
    if hn ≥ 8 then (s, "bad-handle") else
    let useNull := kvInt rest "null" != 0
    let m := if useNull then ({} : Mask) else maskOfNat ((toInt32' (kvInt rest "mask")) % 4294967296).toNat
    (match initOptions s.sysEnv (if useNull then none else some (parseOptions rest)) m with
      | .ok c => ((s.setAppIf hn none).setChan hn (some c), "st=ok " ++ showEff c)
      | .error e => ((s.setAppIf hn none).setChan hn none, "st=" ++ e.cls))
  | ["pton", fam, h] =>
    let f := if fam = "4" then Family.inet else if fam = "6" then Family.inet6 else Family.unspec
    match dnsPton f (unhexC h) with
    | some a => (s, showAddr a)
    | none => (s, "fail")
  | ["ntoppton", a] =>
    (match parseAddr a with
      | some ad =>
        (match dnsPton .unspec (ntop ad) with
          | some b => (s, hex (ntop ad) ++ " " ++ showAddr b)
          | none => (s, hex (ntop ad) ++ " fail"))
      | none => (s, "fail"))
  | ["ntop", a] =>
    match parseAddr a with
    | some ad => (s, hex (ntop ad))
    | none => (s, "fail")
  | [cmd, h] => if ["eff", "save", "csv", "csvfix", "reinit", "destroy"].contains cmd then chanOp s cmd h.toNat! [] else (s, "bad-op")
  | [cmd, h, a] =>
    if ["saveinit", "dup", "setcsv", "setsortlist", "setports"].contains cmd then chanOp s cmd h.toNat! [a]
    else (s, "bad-op")
  | ["appif", h, n, i] => chanOp s "appif" h.toNat! [n, i]
  | _ => (s, "bad-op")

end TextDriver

def main : IO Unit := loop ({} : TextDriver.St) TextDriver.step
